#!/usr/bin/env python3
# Regenerates /verif/MANIFEST.json from the table below (one entry per claimed property).
import json

CLAIMED = {
 "C02": ("only roads to the durable commit pass the certificate gate: who-may-call over the call graph, path-sensitive must-pass-through on HandlePeerBlock / the certificate checks, provenance of the View/height/network/chain arguments, sign-bytes field coverage",
         "call-graph who-may-call + path-sensitive must-pass-through (SSA) + provenance + field coverage"),
 "C05": ("authorisation skeleton: handler/authorised-signer/fee/registry switches agree; every handler debit is addressed by an expression GetAuthorizedSignersFor authorises; CheckTx/CheckSignature/ApplyTransaction succeed only on the ok-edges of every check; batch-verifier verdicts gate execution; sign-bytes cover all fields",
         "table agreement over typed AST + provenance paths + path-sensitive must-pass-through (SSA) + field coverage"),
 "C06": ("replay filter on every execution path with the hash of the executed bytes; CheckReplay's success path passes id equality, hash lookup and window with exactly the documented exemptions; same-block dedup dominates execution; index writer/reader key agreement; only canonical encodings accepted (known finding: signature sub-message not bound to identity)",
         "path-sensitive must-pass-through (SSA) + provenance + writer/reader agreement"),
 "C07": ("roll-back discipline: the failure edge of every transaction runs the complete undo set and never flushes; every TxnWrap is undone on every exit; ResetCaches covers every cache field; proposal/commit entry points reset speculative state; no state-writing error is dropped",
         "path-sensitive pairing analysis (SSA, defers modelled) + field coverage + dropped-error scan over the call graph"),
 "C09": ("single-atomic-write structure: the only durable pebble writes are the one Apply in Store.Commit and the offline Rollback; every logical store writes into the one shared batch; Apply only after Root/setCommitID/Flush ok, version advances only on Apply's ok-edge, nothing fails after Apply; indexes are written into the same store before Commit; re-open reads the key Commit wrote",
         "who-may-call on resolved pebble methods + SSA value identity of the shared batch + path-sensitive must-pass-through"),
 "C10": ("immutability clause only: versioned writes target version+1, the latest-state sentinel or the offline rollback; read-only views have no writer; historical loaders read through TimeMachine at the requested height",
         "provenance paths of version arguments + who-may-call on raw batch deletes + path rule on the latest-state shortcut"),
 "C16": ("two necessary conditions: the commitment tree is read from the prefix it is written under (write path Root vs read path NewReadOnly); VerifyProof returns true only after the recomputed root equals the given root",
         "writer/reader constant agreement + path-sensitive must-pass-through"),
 "C12": ("marker/record/tally discipline: every validator-record deletion removes its deferred-action markers on the same path; marker and record are written together with the same height; stake changes update the tallies with the same value; deferred consumers delete exactly what they consumed; at most one unstaking/paused marker per validator",
         "path-sensitive pairing analysis (SSA) + provenance equality of amounts/heights + who-may-write"),
 "C04": ("where supply can change and that handlers only move tokens: who-may-call on the mint/burn primitives and raw Supply.Total writes; every mint paired with an equal credit; per-function ledger balance by value identity of amount expressions on every success path; ledger layering",
         "who-may-call/who-may-write + path-sensitive ledger balancing by expression identity (SSA)"),
 "C14": ("evidence gate: a key is implicated only after both certificates verified, the views are equal in every field, payloads differ, the phase is above PROPOSE, evidence is fresh and the signer bit is set in both bitmaps; proposer slash lists are re-derived before the block is applied; index-then-slash once per (address,height); the per-committee cap is consulted before any burn",
         "path-sensitive must-pass-through (SSA) + field coverage of View.Equals + operand provenance + writer/reader key agreement"),
 "C20": ("order-book escrow clause only: account leg and pool leg carry the same amount expression on every success path, the pool id is chainId + the kind's addend on both sides, the stored order carries that amount; payout is followed by deletion of the same order; locked orders cannot be edited or deleted; a pool object whose Amount was changed is persisted with SetPool before the function returns ok",
         "path-sensitive ledger balancing by expression identity + provenance of pool ids + pairing"),
 "C01": ("agreement itself is NOT decided; decided are the HotStuff safety disciplines: who may write the lock and under which established conditions, every vote/self-commit only after the phase's validation (SAFE-NODE unless unlocked, ValidateProposal, proposer/proposal check, lock before precommit vote), +2/3 comparisons and every read of the threshold, one vote per validator, locks kept across root-chain resets, attached HighQC never accepted unverified",
         "who-may-write + path-sensitive must-pass-through (SSA) with guard refinement + enumeration of vote/threshold sites"),
 "C11": ("shared-derivation structure: proposer and replica use the same two functions; every header field derives from state/results/previous block/preset inputs; replica acceptance is dominated by hash and result equality; Equals methods compare every field; archive re-marshalling is sound because only canonical encodings execute; oversize-probed transactions never become block content",
         "who-may-call + provenance of header fields + path-sensitive must-pass-through + field coverage of Equals methods"),
 "C13": ("three structural clauses: the validator list borrowed from the shared per-height cache is never mutated by a borrower; threshold/total power have a single writer; past committees are read through a read-only view at the asked height and FSM caches have a fixed writer set",
         "alias/taint analysis of borrowed storage (SSA, closures followed) + who-may-write + provenance"),
 "C03": ("determinism lint over the call-graph closure of ApplyBlock/NewCertificateResults/Root/Commit/SetHash/Hash: every map iteration is order-insensitive, clock values reach only observability sinks, other non-deterministic sources and process-wide mutable state are frozen reasoned tables, goroutines are joined before their results are used, speculative state and caches are reset on every entry/exit",
         "call-graph reachability + loop-body classification + taint over SSA def-use + path-sensitive join analysis + field coverage"),
 "C08": ("structural part only: operations are sorted by tree key before every tree commit, synthetic borders are removed on every exit, subtree workers are joined before merge, the tree object and its node cache never outlive a block and are dropped wholesale after workers wrote behind them",
         "loop-body classification + path-sensitive pairing/join analysis + who-may-write"),
 "C17": ("transport discipline (all clauses but byte-stream equality): nonce advanced after every Seal/Open with the right direction's state and nowhere else; an authenticated connection is produced only after every handshake step succeeded; what is signed and verified is this session's HKDF challenge and the recorded identity is the key that verified it; frame length bounded before slicing; only the handshake makes encrypted connections",
         "path-sensitive pairing/must-pass-through (SSA) + operand provenance + who-may-call/write"),
 "C18": ("multiplexer structure: every packet of a data message is queued under the stream mutex; the reassembly buffer has one reader; the size cap dominates the append and errors close the connection; every topic has a stream and a send arm; packets carry the topic of the stream they are queued on and Eof marks the last chunk",
         "lockset on the path engine + who-may-access + table agreement of topics vs select arms + provenance"),
 "C19": ("injectivity scaffolding only: sign-bytes field coverage for transaction, certificate and the three consensus-message forms (known finding F5), identity keys are full marshallings, key-prefix tables pairwise distinct, composite keys only through the length-prefix joiner, critical-decoder lists agree and raw decoders are confined; panic/hang freedom NOT covered",
         "field coverage on typed AST + table agreement + provenance of key builders + who-may-call on raw decoders"),
}

NOT_APPLICABLE = {
 "C15": "liveness under eventual synchrony quantifies over message schedules and timer values; no path-shape rule implies progress (a model-checking / simulation question, outside static analysis)",
}

props = [json.loads(l) for l in open('/verif/properties.jsonl')]
ids = [p['id'] for p in props]
checks = []
for i in ids:
    if i not in CLAIMED:
        continue
    text, tech = CLAIMED[i]
    checks.append({
        "property_id": i,
        "quick_cmd": f"./check {i} quick",
        "thorough_cmd": f"./check {i} thorough",
        "evidence_file": f"evidence/{i}.json",
        "replay_cmd_template": "./check --replay {path}",
        "engine": "cv",
        "level_claimed": {"category": "other",
                          "text": "static decision, over ALL code paths of /repo's current tree, of structural necessary conditions of the property (not of the behaviour itself): " + text,
                          "design_ref": f"DESIGN.md §4 {i}"},
        "level_note": "trusted base: go/types, go/ssa and the VTA call graph of x/tools v0.29.0; crypto, pebble and protobuf libraries; the clauses listed under coverage.not_covered in the evidence are not decided",
        "technique": "static analysis: " + tech,
    })
na = []
for i in ids:
    if i in CLAIMED:
        continue
    na.append({"property_id": i, "reason": NOT_APPLICABLE.get(i, "check not built yet (work in progress; see DESIGN.md §4 for the planned structural rules)")})
m = {
 "version": 1,
 "setup_cmd": "./check --build",
 "hooks": {"guard": "verif",
           "enable": "static analysis reads source; the loader passes -tags=verif so guarded files would be analysed; no hook exists or is needed",
           "baseline_off_cmd": "cd /repo && PATH=/opt/veriftools/go1.26.8/bin:$PATH GOTOOLCHAIN=local GOFLAGS=-mod=readonly GOPROXY=off go test -vet=off -count=1 -timeout 25m ./bft/... ./controller/... ./fsm/... ./lib/... ./p2p/... ./store/... ./cmd/scripts/... ./cmd/signer/...",
           "source_commits": [], "add_only": True},
 "engines": [{"name": "cv", "path": "cv/", "serves_properties": sorted(CLAIMED),
              "kind_free_text": "repository-specific static analyser (Go, x/tools v0.29.0): type-checked AST, SSA, VTA call graph; engines WHO (who-may-call/write), MPT/PAIR (path-sensitive must-pass-through and pairing), COVER (field coverage), AGREE (table agreement), FLOW (provenance paths), DET, ALIAS, LOCK, BAL"}],
 "checks": checks,
 "not_applicable": na,
 "notes": "Every check loads and type-checks /repo's current working tree on each run; genuine defects found while building are recorded in known_findings.txt (fixed: lines name the fix: commits in /repo).",
}
json.dump(m, open('/verif/MANIFEST.json', 'w'), indent=1)
print("claimed:", sorted(CLAIMED), "not applicable:", len(na))
