#!/usr/bin/env python3
# validates MANIFEST.json and every evidence file against the harness schemas (tooling venv: python3-vt)
import json, sys, glob, jsonschema
ok = True
def chk(path, schema):
    global ok
    try:
        jsonschema.validate(json.load(open(path)), json.load(open(schema)))
        print("ok   ", path)
    except Exception as e:
        ok = False
        print("FAIL ", path, str(e)[:300])
chk('/verif/MANIFEST.json', '/root/.vp/MANIFEST.schema.json')
for f in sorted(glob.glob('/verif/evidence/*.json')):
    chk(f, '/root/.vp/EVIDENCE.schema.json')
m = json.load(open('/verif/MANIFEST.json'))
ids = [json.loads(l)['id'] for l in open('/verif/properties.jsonl')]
claimed = [c['property_id'] for c in m['checks']]
na = [n['property_id'] for n in m.get('not_applicable', [])]
for i in ids:
    if (i in claimed) == (i in na):
        ok = False; print("FAIL  property", i, "must be exactly one of claimed / not_applicable")
sys.exit(0 if ok else 1)
