#!/bin/bash
# usage: mut.sh <props> <patchfile|-e 'python edit expr'> ; applies a patch to a scratch copy of /repo and runs cv on it
# The scratch copy lives under $TMPDIR (default /tmp) and is removed afterwards.
set -u
props="$1"; shift
scr="${TMPDIR:-/tmp}/cv-scratch-$$"
rm -rf "$scr"; mkdir -p "$scr"
rsync -a --exclude .git --exclude 'plugin' /repo/ "$scr/"
( cd "$scr" && git init -q . 2>/dev/null && git add -A >/dev/null 2>&1 && git -c user.email=a@b -c user.name=x commit -qm base >/dev/null 2>&1 )
if [ "$1" = "-e" ]; then
  ( cd "$scr" && python3 -c "$2" ) || { echo "edit failed"; rm -rf "$scr"; exit 3; }
else
  ( cd "$scr" && git apply "$1" ) || { echo "patch failed"; rm -rf "$scr"; exit 3; }
fi
( cd "$scr" && git diff --stat | tail -1; git -c user.email=a@b -c user.name=x commit -qam mut >/dev/null 2>&1 )
export PATH=/opt/veriftools/go1.26.8/bin:$PATH GOTOOLCHAIN=local GOPROXY=off GOSUMDB=off; unset GOWORK
"${CV:-/verif/bin/cv}" -repo "$scr" -props "$props" -out "$scr/.ev" -known /verif/known_findings.txt 2>&1 | grep -v "^loaded" | cut -c1-600
rc=${PIPESTATUS[0]}
rm -rf "$scr"
exit $rc
