#!/usr/bin/env python3
"""Generates the self-test patches (unified diffs against /repo's tree) from the edit table below.

  selftest/<PROP>/fire-<RULE>-<name>.patch    a breaking change: the named rule must report it
  selftest/<PROP>/benign-<name>.patch         a behaviour-preserving refactor: every check of <PROP> must stay silent

Run by hand when the table changes (`python3 selftest/make_patches.py`); the patches are committed.
./check <id> thorough applies each to a scratch copy of /repo (never to /repo itself)."""
import difflib, os, sys

REPO = "/repo"
OUT = "/verif/selftest"

# (property, kind+name, file, old, new)
E = []
def fire(prop, rule, name, file, old, new): E.append((prop, f"fire-{rule}-{name}", file, old, new))
def benign(prop, name, file, old, new): E.append((prop, f"benign-{name}", file, old, new))

# ---------------------------------------------------------------- C01
fire("C01", "R1", "clear-lock-on-round-interrupt", "bft/bft.go", "\tb.BlockResult = nil\n", "\tb.BlockResult = nil\n\tb.HighQC = nil\n")
fire("C01", "R7", "safenode-round-only", "bft/bft.go",
     "\tif justification.RootHeight > locked.RootHeight || (justification.RootHeight == locked.RootHeight && justification.Round > locked.Round) {",
     "\tif justification.Round > locked.Round {")
fire("C01", "R2", "safenode-only-round0", "bft/bft.go", "\tif b.HighQC != nil {\n\t\tif err := b.SafeNode(msg); err != nil {", "\tif b.HighQC != nil && b.Round == 0 {\n\t\tif err := b.SafeNode(msg); err != nil {")
fire("C01", "R5", "drop-locks-on-root-update", "bft/bft.go", "\t\t\t\t\tb.NewHeight(true)", "\t\t\t\t\tb.NewHeight(false)")
fire("C01", "R4", "no-duplicate-vote-check", "bft/vote.go", "\tif enabled {\n\t\treturn ErrDuplicateVote()\n\t}\n", "\t_ = enabled\n")
fire("C01", "R3", "majority-off-by-threshold", "bft/vote.go", "if has23maj := voteSet.TotalVotedPower >= b.ValidatorSet.MinimumMaj23; has23maj {", "if has23maj := voteSet.TotalVotedPower >= b.ValidatorSet.MinimumMaj23/2; has23maj {")
benign("C01", "safenode-flat-condition", "bft/bft.go",
       "\tif b.HighQC != nil {\n\t\tif err := b.SafeNode(msg); err != nil {\n\t\t\tb.log.Error(err.Error())\n\t\t\tb.RoundInterrupt()\n\t\t\treturn\n\t\t}\n\t}\n",
       "\tlocked := b.HighQC != nil\n\tif locked {\n\t\tsafeErr := b.SafeNode(msg)\n\t\tif safeErr != nil {\n\t\t\tb.log.Error(safeErr.Error())\n\t\t\tb.RoundInterrupt()\n\t\t\treturn\n\t\t}\n\t}\n")
# ---------------------------------------------------------------- C02
fire("C02", "R2", "ignore-partial", "controller/block.go", "\t\tif isPartialQC {\n\t\t\t// exit with error\n\t\t\treturn nil, lib.ErrNoMaj23()\n\t\t}\n\t\tif !syncing {", "\t\t_ = isPartialQC\n\t\tif !syncing {")
fire("C02", "R2", "skip-check-when-cached", "controller/block.go", "\tif !syncing || qc.Header.Height%CheckpointFrequency == 0 {", "\tif (!syncing && c.Consensus.BlockResult == nil) || qc.Header.Height%CheckpointFrequency == 0 {")
fire("C02", "R3", "wrong-chain-in-view", "controller/block.go", "isPartialQC, err := qc.Check(v, c.LoadMaxBlockSize(), &lib.View{NetworkId: c.Config.NetworkID, ChainId: c.Config.ChainId}, false)", "isPartialQC, err := qc.Check(v, c.LoadMaxBlockSize(), &lib.View{NetworkId: c.Config.NetworkID, ChainId: qc.Header.ChainId}, false)")
fire("C02", "R4", "drop-height-binding", "lib/certificate.go", "\tif x.Header.Height != block.BlockHeader.Height {\n\t\treturn nil, ErrMismatchCertBlockHeight(x.Header.Height, block.BlockHeader.Height)\n\t}\n", "")
fire("C02", "R5", "signbytes-drop-proposer", "lib/certificate.go", "\tx.Results, x.Block, x.Signature = nil, nil, nil\n", "\tx.Results, x.Block, x.Signature = nil, nil, nil\n\tx.ProposerKey = nil\n")
benign("C02", "phase-check-after-error-check", "controller/block.go",
       "\tif err == nil && qc.Header.Phase != lib.Phase_PRECOMMIT_VOTE {\n\t\t// exit with error\n\t\treturn nil, lib.ErrWrongPhase()\n\t}\n\tif err != nil {\n\t\t// exit with error\n\t\treturn nil, err\n\t}\n",
       "\tif err != nil {\n\t\t// exit with error\n\t\treturn nil, err\n\t}\n\tif finalized := qc.Header.Phase == lib.Phase_PRECOMMIT_VOTE; !finalized {\n\t\t// exit with error\n\t\treturn nil, lib.ErrWrongPhase()\n\t}\n")
# ---------------------------------------------------------------- C03
fire("C03", "R1", "hash-in-map-order", "store/txn.go", "func (t *Txn) flush(prefix []byte, writeVersion uint64) (err lib.ErrorI) {\n\tfor _, v := range t.txn.ops {\n", "func (t *Txn) flush(prefix []byte, writeVersion uint64) (err lib.ErrorI) {\n\tvar order []byte\n\tfor _, v := range t.txn.ops {\n\t\torder = append(order, v.key...)\n")
fire("C03", "R2", "timestamp-into-header", "fsm/state.go", "\t\tNumTxs:                uint64(r.Count),", "\t\tNumTxs:                uint64(r.Count) + uint64(beginBlockStartTime.Unix()%1),")
benign("C03", "count-in-map-range", "fsm/byzantine.go", "func (s *StateMachine) SlashValidators(", "func countTracked(m map[string]map[uint64]uint64) (n int) {\n\tfor _, v := range m {\n\t\tn += len(v)\n\t}\n\treturn\n}\n\nfunc (s *StateMachine) SlashValidators(")
fire("C03", "R7", "header-read-fills-block-cache", "store/indexer.go", "\t// NOTE: a header-only result must not enter the block cache: GetBlockByHeight() serves full blocks from that cache\n\treturn t.getBlock(hashKey, false)\n",
     "\tblock, err := t.getBlock(hashKey, false)\n\tif err != nil {\n\t\treturn nil, err\n\t}\n\tblockCache.Add(height, block)\n\treturn block, nil\n")
benign("C03", "block-cache-fill-through-local", "store/indexer.go", "\t// populate cache on read so historical blocks are warm after a restart\n\tblockCache.Add(height, block)\n\treturn block, nil\n}\n\n// GetBlockHeaderByHeight()",
       "\t// populate cache on read so historical blocks are warm after a restart\n\tfull := block\n\tblockCache.Add(height, full)\n\treturn full, nil\n}\n\n// GetBlockHeaderByHeight()")
# ---------------------------------------------------------------- C04
fire("C04", "R1", "direct-supply-bump", "fsm/message.go", "\t// add to recipient committee\n\treturn s.PoolAdd(msg.ChainId, msg.Amount)", "\t// add to recipient committee\n\tif err = s.AddToTotalSupply(0); err != nil {\n\t\treturn err\n\t}\n\treturn s.PoolAdd(msg.ChainId, msg.Amount)")
fire("C04", "R3", "subsidy-credits-fee-too", "fsm/message.go", "\treturn s.PoolAdd(msg.ChainId, msg.Amount)", "\treturn s.PoolAdd(msg.ChainId, msg.Amount+1)")
fire("C04", "R2", "mint-credit-other-amount", "fsm/account.go", "\t// update the pools balance with the new inflation\n\treturn s.PoolAdd(id, amount)", "\t// update the pools balance with the new inflation\n\treturn s.PoolAdd(id, amount/2)")
benign("C04", "subsidy-local-amount", "fsm/message.go",
       "\tif err = s.AccountSub(crypto.NewAddressFromBytes(msg.Address), msg.Amount); err != nil {\n\t\treturn err\n\t}\n\t// add to recipient committee\n\treturn s.PoolAdd(msg.ChainId, msg.Amount)",
       "\tamount := msg.Amount\n\tif err = s.AccountSub(crypto.NewAddressFromBytes(msg.Address), amount); err != nil {\n\t\treturn err\n\t}\n\t// add to recipient committee\n\treturn s.PoolAdd(msg.ChainId, amount)")
# ---------------------------------------------------------------- C05
fire("C05", "R2", "debit-recipient-field", "fsm/message.go", "\tif err := s.AccountSub(crypto.NewAddressFromBytes(msg.FromAddress), msg.Amount); err != nil {", "\tif err := s.AccountSub(crypto.NewAddressFromBytes(msg.ToAddress), msg.Amount); err != nil {")
fire("C05", "R3", "skip-authorised-compare", "fsm/transaction.go", "\t\tif address.Equals(crypto.NewAddressFromBytes(authorized)) {", "\t\tif address.Equals(crypto.NewAddressFromBytes(authorized)) || len(authorizedSigners) > 3 {")
fire("C05", "R4", "execute-despite-failed-check", "fsm/state.go", "\t\tif e, found := failedCheckTxs[i]; found {\n\t\t\tr.AddFailed(lib.NewFailedTx(tx, e))\n\t\t\tcontinue\n\t\t}\n", "\t\tif e, found := failedCheckTxs[i]; found && !allowOversize {\n\t\t\tr.AddFailed(lib.NewFailedTx(tx, e))\n\t\t\tcontinue\n\t\t}\n")
fire("C05", "R5", "signbytes-drop-fee", "lib/tx.go", "\t\tFee:           x.Fee,\n", "")
fire("C05", "R1", "handler-case-removed", "fsm/message.go", "\tcase *MessageSubsidy:\n\t\treturn s.HandleMessageSubsidy(x)\n", "")
benign("C05", "verify-with-named-bool", "fsm/transaction.go",
       "\t\t\tif !publicKey.VerifyBytes(signBytes, tx.Signature.Signature) {\n\t\t\t\treturn nil, ErrInvalidSignature()\n\t\t\t}\n",
       "\t\t\tif valid := publicKey.VerifyBytes(signBytes, tx.Signature.Signature); !valid {\n\t\t\t\treturn nil, ErrInvalidSignature()\n\t\t\t}\n")
# ---------------------------------------------------------------- C06
fire("C06", "R2", "skip-lookup-for-rlp", "fsm/transaction.go", "\tif txHash != \"\" {\n\t\t// ensure the store can 'read the indexer'", "\tif txHash != \"\" && !IsRLPMemo(tx.Memo) {\n\t\t// ensure the store can 'read the indexer'")
fire("C06", "R3", "dedup-warn-only", "fsm/state.go", "\t\tif found := deDuplicator.Found(hashString); found {\n\t\t\treturn lib.ErrDuplicateTx(hashString)\n\t\t}\n", "\t\tif found := deDuplicator.Found(hashString); found {\n\t\t\ts.log.Warnf(\"duplicate %s\", hashString)\n\t\t}\n")
fire("C06", "R1", "hash-of-other-bytes", "fsm/state.go", "\t\thashString := crypto.HashString(tx)\n", "\t\thashString := crypto.HashString(tx[:len(tx)/2])\n")
benign("C06", "chain-check-before-network-check", "fsm/transaction.go",
       "\t// ensure the right network\n\tif uint64(s.NetworkID) != tx.NetworkId {\n\t\treturn lib.ErrWrongNetworkID()\n\t}\n\t// ensure the right chain\n\tif s.Config.ChainId != tx.ChainId {\n\t\treturn lib.ErrWrongChainId()\n\t}\n",
       "\t// ensure the right chain\n\tif tx.ChainId != s.Config.ChainId {\n\t\treturn lib.ErrWrongChainId()\n\t}\n\t// ensure the right network\n\tif tx.NetworkId != uint64(s.NetworkID) {\n\t\treturn lib.ErrWrongNetworkID()\n\t}\n")
# ---------------------------------------------------------------- C07
fire("C07", "R1", "no-events-reset", "fsm/state.go", "\t\t\ts.events.Reset()\n\t\t\t// restore slash", "\t\t\t// restore slash")
fire("C07", "R1", "flush-before-check", "fsm/state.go", "\t\tif e != nil {\n\t\t\t// add to the failed list", "\t\t_ = txn.Flush()\n\t\tif e != nil {\n\t\t\t// add to the failed list")
fire("C07", "R3", "resetcaches-skips-pools", "fsm/state.go", "\ts.cache.pools = make(map[uint64]*Pool)\n\ts.cache.liveValidators = nil", "\ts.cache.liveValidators = nil")
fire("C07", "R4", "validate-without-reset", "controller/block.go", "\t// reset the mempool at the beginning of the function to preserve the state for CommitCertificate()\n\tc.FSM.Reset()\n", "")
benign("C07", "clone-tracker-after-wrap", "fsm/state.go",
       "\t\tpreTxSlashTracker := s.slashTracker.Clone()\n\t\t// wrap the store in a 'database transaction' in case a rollback to the previous valid transaction is needed\n\t\ttxn, e := s.TxnWrap()\n\t\tif e != nil {\n\t\t\treturn e\n\t\t}\n",
       "\t\ttxn, e := s.TxnWrap()\n\t\tif e != nil {\n\t\t\treturn e\n\t\t}\n\t\tsavedTracker := s.slashTracker.Clone()\n\t\tpreTxSlashTracker := savedTracker\n")
fire("C07", "R6", "oversize-caches-kept", "fsm/state.go", "\t// the 'oversize' transactions ran inside a wrapper that is dropped on return: discard the FSM caches that still hold their effects\n\tif oversize {\n\t\ts.ResetCaches()\n\t}\n", "")
fire("C07", "R6", "reset-at-wrap-not-at-end", "fsm/state.go",
     [("\t\t\toversize = true\n", "\t\t\toversize = true\n\t\t\ts.ResetCaches()\n"), ("\tif oversize {\n\t\ts.ResetCaches()\n\t}\n", "")], None)
benign("C07", "oversize-reset-unconditional", "fsm/state.go", "\tif oversize {\n\t\ts.ResetCaches()\n\t}\n", "\ts.ResetCaches()\n")
benign("C07", "oversize-reset-deferred", "fsm/state.go", "\t// the 'oversize' transactions ran inside a wrapper that is dropped on return: discard the FSM caches that still hold their effects\n\tif oversize {\n\t\ts.ResetCaches()\n\t}\n",
       "\tdefer func() {\n\t\tif oversize {\n\t\t\ts.ResetCaches()\n\t\t}\n\t}()\n")
fire("C11", "R7", "oversize-caches-kept", "fsm/state.go", "\t// the 'oversize' transactions ran inside a wrapper that is dropped on return: discard the FSM caches that still hold their effects\n\tif oversize {\n\t\ts.ResetCaches()\n\t}\n", "")
benign("C07", "tracker-clone-inner-maps-clone", "fsm/byzantine.go", [("import (\n\t\"github.com/canopy-network/canopy/lib\"\n\t\"github.com/canopy-network/canopy/lib/crypto\"\n\t\"slices\"\n)", "import (\n\t\"github.com/canopy-network/canopy/lib\"\n\t\"github.com/canopy-network/canopy/lib/crypto\"\n\t\"maps\"\n\t\"slices\"\n)"),
       ("\t\tcp := make(map[uint64]uint64, len(m))\n\t\tfor chainId, percent := range m {\n\t\t\tcp[chainId] = percent\n\t\t}\n\t\tclone[addr] = cp\n", "\t\tclone[addr] = maps.Clone(m)\n")], None)
fire("C07", "R7", "tracker-clone-shares-inner-maps", "fsm/byzantine.go", "\t\tcp := make(map[uint64]uint64, len(m))\n\t\tfor chainId, percent := range m {\n\t\t\tcp[chainId] = percent\n\t\t}\n\t\tclone[addr] = cp\n", "\t\tclone[addr] = m\n")
# ---------------------------------------------------------------- C08
fire("C08", "R1", "unsorted-sequential-commit", "store/smt.go", "\tsort.Slice(s.operations, func(i, j int) bool {\n\t\treturn s.operations[i].Key.cmp(s.operations[j].Key) < 0\n\t})\n\t// execute in a single tree", "\t// execute in a single tree")
fire("C08", "R2", "cleanup-not-deferred", "store/smt.go", "\tdefer func() {\n\t\tif cleanupErr := cleanup(); cleanupErr != nil && err == nil {\n\t\t\terr = cleanupErr\n\t\t}\n\t}()\n", "\t_ = cleanup\n")
fire("C08", "R3", "return-without-draining", "store/smt.go", "\t\t\tfor completed++; completed < activeSubtrees; completed++ {\n\t\t\t\t<-resultChan\n\t\t\t}\n", "")
benign("C08", "slices-sortfunc", "store/smt.go",
       "\tsort.Slice(s.operations, func(i, j int) bool {\n\t\treturn s.operations[i].Key.cmp(s.operations[j].Key) < 0\n\t})\n\t// execute in a single tree",
       "\tops := s.operations\n\tsort.Slice(ops, func(i, j int) bool {\n\t\treturn ops[i].Key.cmp(ops[j].Key) < 0\n\t})\n\t// execute in a single tree")
# ---------------------------------------------------------------- C09
fire("C09", "R3", "version-before-apply", "store/store.go", "\t// extract the internal metrics from the pebble batch\n", "\ts.version = nextVersion\n\t// extract the internal metrics from the pebble batch\n")
fire("C09", "R3", "flush-skips-indexer", "store/store.go", "\tif e := s.Indexer.db.Commit(); e != nil {\n\t\treturn ErrCommitDB(e)\n\t}\n\treturn nil\n}", "\treturn nil\n}")
fire("C09", "R1", "early-batch-commit", "store/store.go", "\tif err = s.purgeLssTombstones(lssDeleteKeys); err != nil {", "\tif e := s.ss.writer.(*VersionedStore).Commit(); e != nil {\n\t\treturn nil, e\n\t}\n\tif err = s.purgeLssTombstones(lssDeleteKeys); err != nil {")
benign("C09", "apply-error-named", "store/store.go",
       "\tif err := s.db.Apply(s.writer, pebble.NoSync); err != nil {\n\t\tcommitErr := ErrCommitDB(err)\n\t\ts.Reset()\n\t\treturn nil, commitErr\n\t}\n",
       "\tapplyErr := s.db.Apply(s.writer, pebble.NoSync)\n\tif applyErr != nil {\n\t\ts.Reset()\n\t\treturn nil, ErrCommitDB(applyErr)\n\t}\n")
# ---------------------------------------------------------------- C10
fire("C10", "R1", "nested-txn-writes-current-version", "store/store.go", "\tnextVersion := s.version + 1\n\treturn &Store{\n\t\tversion: s.version,", "\tnextVersion := s.version\n\treturn &Store{\n\t\tversion: s.version,")
fire("C10", "R2", "readonly-with-writer", "store/store.go", "\t\tstateReader = NewTxn(hssReader, nil, historicStatePrefix, false, false, true)", "\t\tstateReader = NewTxn(hssReader, hssReader, historicStatePrefix, false, false, true)")
benign("C10", "readonly-branch-order", "store/store.go",
       "\tif s.version == queryVersion {\n\t\tlssReader := NewVersionedStore(s.db.NewSnapshot(), nil, lssVersion)\n\t\tstateReader = NewTxn(lssReader, nil, latestStatePrefix, false, false, true)\n\t} else {\n\t\tstateReader = NewTxn(hssReader, nil, historicStatePrefix, false, false, true)\n\t}\n",
       "\tif queryVersion != s.version {\n\t\tstateReader = NewTxn(hssReader, nil, historicStatePrefix, false, false, true)\n\t} else {\n\t\tlssReader := NewVersionedStore(s.db.NewSnapshot(), nil, lssVersion)\n\t\tstateReader = NewTxn(lssReader, nil, latestStatePrefix, false, false, true)\n\t}\n")
fire("C10", "R5", "first-skips-an-entry", "store/versioned_store.go", "\t\tif !vi.iter.SeekGE(vi.prefix) {\n", "\t\tif !vi.iter.SeekGE(vi.prefix) || !vi.iter.Next() {\n")
fire("C10", "R5", "seek-then-step", "store/versioned_store.go", "\t\tif version > vi.store.version {\n\t\t\t// skip over the 'previous userKey' to go to the next 'userKey'\n\t\t\tcontinue\n",
     "\t\tif version > vi.store.version {\n\t\t\tif vi.seek && !vi.reverse {\n\t\t\t\tvi.iter.SeekGE(vi.store.makeVersionedKey(rawKey[:len(rawKey)-VersionSize], vi.store.version))\n\t\t\t}\n\t\t\tcontinue\n")
benign("C10", "raw-key-helper", "store/versioned_store.go",
       [("\t\trawKey := vi.iter.Key()\n\t\tversion := parseVersion(rawKey)\n\t\tif version > vi.store.version {", "\t\trawKey := vi.rawKey()\n\t\tversion := parseVersion(rawKey)\n\t\tif version > vi.store.version {"),
        ("// step() increments the iterator to the logical 'next'\n", "// rawKey() returns the versioned key under the cursor\nfunc (vi *VersionedIterator) rawKey() []byte { return vi.iter.Key() }\n\n// step() increments the iterator to the logical 'next'\n")], None)
fire("C10", "R6", "view-borrows-live-indexer", "store/store.go", "\t\tIndexer:    &Indexer{NewTxn(hssReader, nil, indexerPrefix, false, false, false), s.config},\n\t\tmetrics:    s.metrics,\n\t\tmu:         &sync.Mutex{},", "\t\tIndexer:    s.Indexer,\n\t\tmetrics:    s.metrics,\n\t\tmu:         &sync.Mutex{},")
benign("C10", "view-tree-in-local", "store/store.go", [("\t// return the store object\n\treturn &Store{\n\t\tversion:    queryVersion,", "\ttree := NewDefaultSMT(NewTxn(hssReader, nil, stateCommitIDPrefix, false, false, true))\n\t// return the store object\n\treturn &Store{\n\t\tversion:    queryVersion,"),
       ("\t\tsc:         NewDefaultSMT(NewTxn(hssReader, nil, stateCommitIDPrefix, false, false, true)),\n\t\tIndexer:    &Indexer{NewTxn(hssReader, nil, indexerPrefix, false, false, false), s.config},\n\t\tmetrics:    s.metrics,\n\t\tmu:         &sync.Mutex{},", "\t\tsc:         tree,\n\t\tIndexer:    &Indexer{NewTxn(hssReader, nil, indexerPrefix, false, false, false), s.config},\n\t\tmetrics:    s.metrics,\n\t\tmu:         &sync.Mutex{},")], None)
# ---------------------------------------------------------------- C11
fire("C11", "R3", "accept-failed-txs", "controller/block.go", "\t\treturn nil, lib.ErrFailedTransactions()\n", "\t\tc.log.Warn(lib.ErrFailedTransactions().Error())\n")
fire("C11", "R2", "header-uses-block-numtxs", "fsm/state.go", "\t\tNumTxs:                uint64(r.Count),", "\t\tNumTxs:                b.BlockHeader.NumTxs,")
fire("C11", "R3", "results-not-compared", "controller/block.go", "\tif !qc.Results.Equals(compareResults) {", "\tif qc.Results == nil && !qc.Results.Equals(compareResults) {")
benign("C11", "hash-compare-named", "controller/block.go",
       "\tif !bytes.Equal(compareHash, candidate.Hash) {\n",
       "\tif same := bytes.Equal(compareHash, candidate.Hash); !same {\n")
fire("C11", "R8", "proposer-counts-results-too", "lib/tx.go", "\ta.BlockSize += txSize\n", "\ta.BlockSize += txSize + uint64(len(txResult))\n")
fire("C11", "R8", "replica-measures-encoded-block", "lib/certificate.go", "\tif txsSize > maxBlockSize {\n", "\tif txsSize+len(x.Block)/64 > maxBlockSize {\n")
benign("C11", "replica-size-loop-by-index", "lib/certificate.go", "\tfor _, tx := range block.Transactions {\n\t\ttxsSize += len(tx)\n\t}\n\tif txsSize > maxBlockSize {\n",
       "\tfor i := 0; i < len(block.Transactions); i++ {\n\t\ttxsSize = txsSize + len(block.Transactions[i])\n\t}\n\tif maxBlockSize < txsSize {\n")
benign("C11", "orders-scan-sorted-copy", "fsm/swap.go", [("\t\"math\"\n\t\"sort\"\n", "\t\"math\"\n\t\"slices\"\n\t\"sort\"\n"), ("\t\t// for each transaction in the block\n\t\tfor _, tx := range b.Transactions {", "\t\t// scan a copy ordered by index (the block result itself is shared and stays as it is)\n\t\ttxs := slices.Clone(b.Transactions)\n\t\tslices.SortStableFunc(txs, func(x, y *lib.TxResult) int { return int(x.Index) - int(y.Index) })\n\t\t// for each transaction in the block\n\t\tfor _, tx := range txs {")], None)
fire("C11", "R10", "orders-scan-sorts-block-in-place", "fsm/swap.go", [("\t\"math\"\n\t\"sort\"\n", "\t\"math\"\n\t\"slices\"\n\t\"sort\"\n"), ("\t\t// for each transaction in the block\n\t\tfor _, tx := range b.Transactions {", "\t\tslices.SortStableFunc(b.Transactions, func(x, y *lib.TxResult) int { return int(y.Transaction.Fee) - int(x.Transaction.Fee) })\n\t\t// for each transaction in the block\n\t\tfor _, tx := range b.Transactions {")], None)
# ---------------------------------------------------------------- C12
fire("C12", "R2", "marker-at-other-height", "fsm/validator.go", "\tvalidator.UnstakingHeight = finishUnstakingHeight\n", "\tvalidator.UnstakingHeight = finishUnstakingHeight + 1\n")
fire("C12", "R3", "stake-without-supply", "fsm/message.go", "\tif err = s.AddToStakedSupply(msg.Amount); err != nil {\n\t\treturn err\n\t}\n", "")
fire("C12", "R4", "consumer-keeps-markers", "fsm/validator.go", "\t// delete all unstaking keys\n\treturn s.DeleteAll(toDelete)", "\t// delete all unstaking keys\n\t_ = toDelete\n\treturn nil")
benign("C12", "delete-paused-marker-first", "fsm/byzantine.go",
       "\t\tif validator.UnstakingHeight != 0 {\n\t\t\tif err = s.Delete(KeyForUnstaking(validator.UnstakingHeight, addr)); err != nil {\n\t\t\t\treturn err\n\t\t\t}\n\t\t}\n\t\tif validator.MaxPausedHeight != 0 {\n\t\t\tif err = s.Delete(KeyForPaused(validator.MaxPausedHeight, addr)); err != nil {\n\t\t\t\treturn err\n\t\t\t}\n\t\t}\n",
       "\t\tif validator.MaxPausedHeight != 0 {\n\t\t\tif err = s.Delete(KeyForPaused(validator.MaxPausedHeight, addr)); err != nil {\n\t\t\t\treturn err\n\t\t\t}\n\t\t}\n\t\tif unstaking := validator.UnstakingHeight != 0; unstaking {\n\t\t\tif err = s.Delete(KeyForUnstaking(validator.UnstakingHeight, addr)); err != nil {\n\t\t\t\treturn err\n\t\t\t}\n\t\t}\n")
# ---------------------------------------------------------------- C13
fire("C13", "R1", "sort-borrowed-list", "fsm/validator.go", "\tslices.SortFunc(filtered, func(a, b *Validator) int {", "\tslices.SortFunc(validators, func(a, b *Validator) int {")
fire("C13", "R1", "mutate-borrowed-record", "fsm/validator.go", "\tfor _, v := range filtered[:limit] {\n", "\tfor _, v := range filtered[:limit] {\n\t\tv.Committees = nil\n")
benign("C13", "members-prealloc", "fsm/validator.go", "\tmembers := make([]*lib.ConsensusValidator, 0)\n", "\tmembers := make([]*lib.ConsensusValidator, 0, len(filtered))\n")
# ---------------------------------------------------------------- C14
fire("C14", "R1", "no-freshness", "bft/evidence.go", "\tif x.VoteA.Header.RootHeight < minimumEvidenceHeight {\n\t\treturn lib.ErrEvidenceTooOld()\n\t}\n", "")
fire("C14", "R2", "union-instead-of-intersection", "lib/consensus.go", "\t\t// if signed 1, check if they signed 2 as well\n\t\tif signed {\n", "\t\t// if signed 1, check if they signed 2 as well\n\t\tif signed || i == 0 {\n")
fire("C14", "R4", "slash-without-index", "fsm/byzantine.go", "\t\t\tif err = store.IndexDoubleSigner(address, height); err != nil {\n\t\t\t\treturn err\n\t\t\t}\n", "")
fire("C14", "R3", "apply-before-evidence", "controller/block.go", "\tif err = c.Consensus.ValidateByzantineEvidence(qc.Results.SlashRecipients, evidence); err != nil {\n\t\t// exit with error\n\t\treturn\n\t}\n", "\tif err = c.Consensus.ValidateByzantineEvidence(qc.Results.SlashRecipients, evidence); err != nil {\n\t\tc.log.Warn(err.Error())\n\t\terr = nil\n\t}\n")
benign("C14", "phase-before-payload", "bft/evidence.go",
       "\tif bytes.Equal(x.VoteB.SignBytes(), x.VoteA.SignBytes()) {\n\t\treturn lib.ErrNonEquivocatingVote() // same payloads\n\t}\n\t// don't allow double signs below propose\n\tif x.VoteA.Header.Phase <= Propose {\n\t\treturn lib.ErrWrongPhase()\n\t}\n\treturn nil\n}",
       "\t// don't allow double signs below propose\n\tif x.VoteA.Header.Phase <= Propose {\n\t\treturn lib.ErrWrongPhase()\n\t}\n\tif same := bytes.Equal(x.VoteB.SignBytes(), x.VoteA.SignBytes()); same {\n\t\treturn lib.ErrNonEquivocatingVote() // same payloads\n\t}\n\treturn nil\n}")
# ---------------------------------------------------------------- C16
fire("C16", "R2", "accept-without-root-compare", "store/smt.go", "\tif !bytes.Equal(hash, root) {\n\t\treturn false, nil\n\t}\n\t// calculate the key to traverse the tree", "\tif !bytes.Equal(hash, root) && len(root) != 0 {\n\t\treturn false, nil\n\t}\n\t// calculate the key to traverse the tree")
benign("C16", "root-compare-named", "store/smt.go", "\tif !bytes.Equal(hash, root) {\n\t\treturn false, nil\n\t}\n\t// calculate the key to traverse the tree", "\tif rootMatches := bytes.Equal(hash, root); !rootMatches {\n\t\treturn false, nil\n\t}\n\t// calculate the key to traverse the tree")
# ---------------------------------------------------------------- C17
fire("C17", "R1", "read-nonce-not-advanced", "p2p/encrypt.go", "\tincrementNonce(c.receive.nonce)\n", "\t// nonce is advanced lazily\n")
fire("C17", "R2", "no-challenge-verification", "p2p/encrypt.go", "\tif !peerPublicKey.VerifyBytes(challenge[:], peerSig.Signature) {\n\t\treturn nil, ErrFailedChallenge()\n\t}\n", "\t_ = challenge\n")
fire("C17", "R3", "sign-ephemeral-key", "p2p/encrypt.go", "\t\tSignature: privateKey.Sign(challenge[:]),", "\t\tSignature: privateKey.Sign(tempPublicKey),")
fire("C17", "R4", "unbounded-chunk", "p2p/encrypt.go", "\tif chunkLength > crypto.MaxDataSize {\n\t\treturn 0, ErrChunkLargerThanMax()\n\t}\n", "")
benign("C17", "bound-check-flipped", "p2p/encrypt.go", "\tif chunkLength > crypto.MaxDataSize {\n", "\tif crypto.MaxDataSize < chunkLength {\n")
# ---------------------------------------------------------------- C18
fire("C18", "R3", "cap-checks-packet-only", "p2p/conn.go", [("\tmsgAssemblerLen, packetLen := len(s.msgAssembler), len(packet.Bytes)\n", "\tpacketLen := len(packet.Bytes)\n"), ("\tif int(maxMessageSize) < msgAssemblerLen+packetLen {\n", "\tif int(maxMessageSize) < packetLen {\n")], None)
fire("C18", "R5", "eof-on-every-packet", "p2p/conn.go", "\t\t\tEof:      i == len(chunks)-1,", "\t\t\tEof:      i <= len(chunks)-1,")
fire("C18", "R2", "second-assembler-reader", "p2p/conn.go", "func (c *MultiConn) sendHeartbeat() {\n", "func (c *MultiConn) sendHeartbeat() {\n\tif s := c.streams[lib.Topic_TX]; s != nil && len(s.msgAssembler) > 1<<20 {\n\t\ts.msgAssembler = s.msgAssembler[:0]\n\t}\n")
benign("C18", "queue-loop-inline-ok", "p2p/conn.go", "\t\tok := s.queueSend(packet, sendStart, metrics)\n\t\tif !ok {\n\t\t\treturn false\n\t\t}\n", "\t\tif !s.queueSend(packet, sendStart, metrics) {\n\t\t\treturn false\n\t\t}\n")
# ---------------------------------------------------------------- C19
fire("C19", "R2", "duplicate-prefix", "fsm/key.go", "\tdexPrefix              = []byte{15}", "\tdexPrefix              = []byte{13}")
fire("C19", "R3", "raw-concatenated-key", "fsm/key.go", "func KeyForNonSigner(a []byte) []byte   { return lib.JoinLenPrefix(nonSignerPrefix, a) }", "func KeyForNonSigner(a []byte) []byte   { return append(append([]byte{}, nonSignerPrefix...), a...) }")
fire("C19", "R4", "tx-not-critical", "lib/util.go", "\tcase *QuorumCertificate, *Block, *Transaction:\n\t\treturn detectUnknownProtoFields", "\tcase *QuorumCertificate, *Block:\n\t\treturn detectUnknownProtoFields")
benign("C19", "key-with-local", "fsm/key.go", "func KeyForAccount(addr crypto.AddressI) []byte {\n\treturn lib.JoinLenPrefix(accountPrefix, addr.Bytes())\n}", "func KeyForAccount(addr crypto.AddressI) []byte {\n\tb := addr.Bytes()\n\treturn lib.JoinLenPrefix(accountPrefix, b)\n}")
# ---------------------------------------------------------------- C20
fire("C20", "R1", "escrow-into-holding-pool", "fsm/message.go", "\tif err = s.PoolAdd(msg.ChainId+uint64(EscrowPoolAddend), msg.AmountForSale); err != nil {\n\t\treturn\n\t}\n\t// save the order in state", "\tif err = s.PoolAdd(msg.ChainId+uint64(HoldingPoolAddend), msg.AmountForSale); err != nil {\n\t\treturn\n\t}\n\t// save the order in state")
fire("C20", "R2", "close-keeps-order", "fsm/swap.go", "\t// delete the order\n\treturn s.DeleteOrder(orderId, chainId)", "\t// delete the order\n\treturn nil")
fire("C20", "R2", "edit-locked-order", "fsm/message.go", "\t// ensure the order isn't locked\n\tif order.BuyerReceiveAddress != nil {\n\t\treturn lib.ErrOrderLocked()\n\t}\n\t// get the validator params from state", "\t// get the validator params from state")
benign("C20", "close-order-local-amount", "fsm/swap.go",
       "\tif err = s.PoolSub(chainId+EscrowPoolAddend, order.AmountForSale); err != nil {\n\t\treturn\n\t}\n\t// send the funds to the recipient address\n\tif err = s.AccountAdd(buyerAddress, order.AmountForSale); err != nil {\n\t\treturn\n\t}\n",
       "\tamount := order.AmountForSale\n\tif err = s.PoolSub(chainId+EscrowPoolAddend, amount); err != nil {\n\t\treturn\n\t}\n\t// send the funds to the recipient address\n\tif err = s.AccountAdd(buyerAddress, amount); err != nil {\n\t\treturn\n\t}\n")

def main():
    bad = 0
    for prop, name, file, old, new in E:
        src = open(os.path.join(REPO, file)).read()
        edits = old if isinstance(old, list) else [(old, new)]
        if any(src.count(o) < 1 for o, _ in edits):
            print("PATTERN NOT FOUND:", prop, name, file); bad += 1; continue
        dst = src
        for o, n in edits:
            dst = dst.replace(o, n, 1)
        diff = "".join(difflib.unified_diff(src.splitlines(True), dst.splitlines(True), "a/" + file, "b/" + file))
        d = os.path.join(OUT, prop); os.makedirs(d, exist_ok=True)
        open(os.path.join(d, name + ".patch"), "w").write(diff)
    print(len(E) - bad, "patches written,", bad, "patterns not found")
    sys.exit(1 if bad else 0)

main()
