#!/bin/bash
# selftest/run.sh <property-id> [outfile]
# Both-ways self-test of the rules of one property (thorough tier):
#   every selftest/<id>/fire-<RULE>-*.patch and every filed seeded defect that a check of this property reports (meta.json)
#   must make the named rule (or, for seeds, any listed check) report a VIOLATION on a scratch copy;
#   every selftest/<id>/benign-*.patch must leave all checks of the property silent.
# Scratch copies live under $TMPDIR (default /tmp) and are removed at once. Exit 0 = self-test ok, 2 = the CHECKER is wrong
# (never exit 1: a self-test failure is not a violation of the property by canopy).
set -u
id="$1"; outfile="${2:-/verif/.cache/selftest-$id.json}"
cd "$(dirname "$0")/.."
mkdir -p .cache
export PATH=/opt/veriftools/go1.26.8/bin:$PATH GOTOOLCHAIN=local GOPROXY=off GOSUMDB=off; unset GOWORK
REPO="${VERIF_REPO:-/repo}"
work="${TMPDIR:-/tmp}/cv-selftest-$id-$$"; rm -rf "$work"; mkdir -p "$work"
trap 'rm -rf "$work"' EXIT
jobs=()
for p in selftest/$id/*.patch; do [ -f "$p" ] && jobs+=("$p"); done
for d in seeded/*/; do
  [ -f "$d/meta.json" ] || continue
  # a filed seed belongs to the self-test of every property one of whose checks reports it (not only the property it was written for)
  hit=$(python3 -c "import json,sys;m=json.load(open(sys.argv[1]));print(int(any(w.startswith(sys.argv[2]+'.') for w in m.get('checks_that_fire',[]))))" "$d/meta.json" "$id")
  if [ "$hit" = 1 ]; then jobs+=("$d/patch.diff"); fi
done
run_one() {
  patch="$1"; id="$2"; work="$3"; REPO="$4"
  name=$(echo "$patch" | tr '/' '_')
  scr="$work/$name"; mkdir -p "$scr"
  rsync -a --exclude .git --exclude plugin "$REPO/" "$scr/"
  ( cd "$scr" && git init -q . && git add -A >/dev/null 2>&1 && git -c user.email=a@b -c user.name=x commit -qm base >/dev/null 2>&1 && git apply "/verif/$patch" ) >/dev/null 2>&1 || { echo "$patch|noapply|"; rm -rf "$scr"; return; }
  out=$(/verif/bin/cv -repo "$scr" -props "$id" -out "$scr/.ev" -known /verif/known_findings.txt 2>&1)
  fired=$(echo "$out" | grep -o "rule=C[0-9]*\.[A-Za-z0-9]*" | sort -u | sed 's/rule=//' | tr '\n' ',')
  loadfail=$(echo "$out" | grep -c "LOAD FAILED")
  rm -rf "$scr"
  echo "$patch|$fired|$loadfail"
}
export -f run_one
results=$(printf '%s\n' "${jobs[@]}" | xargs -P 4 -I{} bash -c 'run_one "$1" "$2" "$3" "$4"' _ {} "$id" "$work" "$REPO")
python3 - "$id" "$outfile" <<PY
import json, sys, os, re
id, outfile = sys.argv[1], sys.argv[2]
rows = [l for l in """$results""".splitlines() if l.strip()]
fired_ok = fired_total = benign_ok = benign_total = 0
problems = []
details = []
for l in rows:
    patch, fired, loadfail = (l.split("|") + ["", ""])[:3]
    fired = [f for f in fired.split(",") if f]
    base = os.path.basename(patch)
    if fired == ["noapply"] or (len(l.split("|")) > 1 and l.split("|")[1] == "noapply"):
        problems.append(f"{patch}: does not apply to the current tree (regenerate with selftest/make_patches.py)")
        continue
    if loadfail and loadfail != "0":
        problems.append(f"{patch}: patched tree does not load/type-check")
        continue
    if base.startswith("fire-"):
        fired_total += 1
        rule = id + "." + base.split("-")[1]
        ok = rule in fired
        fired_ok += ok
        details.append({"patch": patch, "expected": rule, "fired": fired, "ok": ok})
        if not ok: problems.append(f"{patch}: expected {rule} to fire, fired {fired or 'nothing'}")
    elif base.startswith("benign-"):
        benign_total += 1
        ok = not fired
        benign_ok += ok
        details.append({"patch": patch, "expected": "silent", "fired": fired, "ok": ok})
        if not ok: problems.append(f"{patch}: benign refactor raised {fired} (false alarm)")
    else:  # seeded defect
        fired_total += 1
        meta = json.load(open(os.path.join("/verif", os.path.dirname(patch), "meta.json")))
        want = [w for w in meta.get("checks_that_fire", []) if w.startswith(id + ".")]
        ok = any(w in fired for w in want) if want else bool(fired)
        fired_ok += ok
        details.append({"patch": patch, "expected": want, "fired": fired, "ok": ok})
        if not ok: problems.append(f"{patch}: seeded defect no longer detected (expected one of {want}, fired {fired})")
json.dump({"property": id, "mutants_fired": fired_ok, "mutants_total": fired_total, "benign_silent": benign_ok, "benign_total": benign_total,
           "problems": problems, "details": details}, open(outfile, "w"), indent=1)
print(f"selftest {id}: mutants fired {fired_ok}/{fired_total}, benign silent {benign_ok}/{benign_total}")
for p in problems: print("  SELFTEST PROBLEM:", p)
sys.exit(2 if problems else 0)
PY
