#!/usr/bin/env python3
"""Regenerates /verif/DESIGN.md from tools/DESIGN.tmpl.md: {{RULES}} from evidence/*.json (what the last run of the
analyser on /repo reported about itself) and {{SEEDS}} from seeded/*/meta.json."""
import glob, json, os, re
V = "/verif"
TITLES = {p["id"]: p["title"] for p in map(json.loads, open(f"{V}/properties.jsonl"))}
# which catching rules were written only after the seed had been read (kept by hand: history, not derivable)
ADDED_AFTER = {"C02a": "C02.R7", "C08a": "C08.R5", "C10a": "C10.R4", "C11a": "C11.R6", "C13a": "C13.R4", "C17a": "C17.R6",
               "C19a": "C19.R1 (evidence identity)", "C20a": "C20.R3", "C01a": "C01.R6 (written while reading the seed's summary)",
               "C03a": "C03.R6 (written while reading the seed's summary)",
               "C05b": "C05.R4 (pre-pass clause)", "C03b": "C11.R2 (result index)", "C04b": "C04.R5", "C10b": "C10.R5",
               "C11b": "C11.R8", "C16b": "C16.R3 / C10.R6", "C18b": "C18.R6", "C20b": "C20.R4",
               "C02d": "C02.R9", "C03d": "C03.R8", "C06d": "C06.R6", "C07d": "C07.R8", "C08d": "C08.R4 (initial value of Store.sc)", "C10d": "C10.R8",
               "C11d": "C11.R11", "C12d": "C12.R7", "C13d": "C13.R3 / C10.R3 (no answer without the view)", "C14d": "C14.R3 (height direction)", "C16d": "C16.R4",
               "C17d": "C17.R7", "C19d": "C19.R6",
               "C02c": "C02.R8", "C07c": "C07.R7", "C08c": "C08.R6 / C10.R7", "C11c": "C11.R10", "C12c": "C12.R6", "C13c": "C13.R5", "C18c": "C18.R7",
               "C18e": "C18.R8", "C13e": "C13.R6"}
MISS_WHY = {"C04e": "the genesis loader SetOrderBooks tops the escrow pool up only to the sum of the book's orders but still adds every order to Supply.Total: genesis consistency (which pools a genesis file pre-funds) is listed as not covered; the genesis loaders are exempt from the who-may-write rule by design and no ledger primitive is by-passed",
            "C08e": "rehash() skips recomputing a node hash while a 'clean' flag is set, and the flag is re-armed one pop too early: which nodes are re-hashed for which operation sequence is value-level (canonical trie shape / root equality with a reference are listed as not covered)",
            "C10e": "the prefixed key of a parent iterator is built in the transaction's shared read buffer, which a later Get overwrites while the iterator still holds it: a lifetime/aliasing fact about a scratch buffer across calls into an interface (lib.RWStoreI.NewIterator) whose implementations retain the slice; no escape analysis through interface calls in reach (iterator semantics are listed as not covered)",
            "C16e": "traverse() no longer sets the key of a node that getNode did not find; only VerifyProof's partial tree has such nodes: soundness of the verifier's re-traversal is value-level (F4, listed as not covered)",
            "C20e": "a generic helper trims the next batch first and then compares the number moved with the already shortened list, so a still populated batch is reported empty and deleted: an order-of-evaluation/arithmetic fact about list lengths, value-level","C16a": "VerifyProof rejects a true statement for particular tree shapes: completeness of proof verification is value-level (listed as not covered)",
            "C08b": "a delete is elided from the tree commit when the committed value is empty: which keys reach the tree is value-level (canonical-commitment clause, not covered); the loop that filters is order-insensitive and the rules rightly stay silent",
            "C17b": "the carry-over buffer is three bytes shorter than the largest remainder: a boundary value of the byte-stream-equality clause, which C17 does not claim",
            "C05c": "the signature-cache key is built in a fixed 1000-byte buffer and silently truncated for longer tuples: which bytes reach the key is a boundary value (no length reasoning in reach)",
            "C06c": "the secp256k1 verifier is swapped for one that accepts high-s signatures: the semantics of a cryptographic library call (trusted base); it makes the recorded finding F1b (signature bytes are part of the identity but not signed) exploitable for that key type",
            "C10c": "Rollback distinguishes 'absent' from 'present with an empty value' by a nil test on Get: the value nil-versus-empty is value-level",
            "C16c": "a byte-wise fast path in key.greatestCommonPrefix mis-handles a sibling key whose length is not a multiple of 8: bit arithmetic on tree keys, value-level (proof completeness is listed as not covered)",
            "C20c": "SafeComputeDY computes its denominator in uint64, which wraps for reserves near 2^64/1000: AMM arithmetic, which C20 does not claim",
            "C19b": "the exclusive upper bound of a prefix scan is computed one byte too long for prefixes ending in 0xFF: byte arithmetic on key ranges, value-level"}

def rules():
    out = []
    for f in sorted(glob.glob(f"{V}/evidence/C*.json")):
        e = json.load(open(f)); c = e["coverage"]; pid = e["property_id"]
        out.append(f"### {pid} — {TITLES.get(pid, '')}  *(other; {c['obligations']} obligations on today's tree, {c['discharged']} discharged)*\n")
        for r in c["rules"]:
            out.append(f"* **{r['id'].split('.')[1]}** [{r['engine']}] {r['text']} *(floor {r['floor']}, today {r['instances']})*")
        if c.get("known_findings"):
            out.append("\nKnown findings printed: " + str(len(c["known_findings"])) + " (§5).")
        out.append("\nNot covered: " + "; ".join(c["not_covered"]) + ".\n")
    return "\n".join(out)

def seeds():
    rows = ["| seed | property | what the change does (short) | needs to manifest | checks that report it | rule existed before? |",
            "|------|----------|-------------------------------|-------------------|-----------------------|----------------------|"]
    n = caught = 0
    for d in sorted(glob.glob(f"{V}/seeded/C*/")):
        name = os.path.basename(d.rstrip("/"))
        m = json.load(open(d + "meta.json"))
        n += 1
        fired = m.get("checks_that_fire", [])
        short = lambda s, k: re.sub(r"\s+", " ", s or "").replace("|", "/")[:k]
        if fired:
            caught += 1
            before = "added: " + ADDED_AFTER[name] if name in ADDED_AFTER else "yes"
            fs = ", ".join(fired)
        else:
            before = "miss"
            fs = "**none** — " + MISS_WHY.get(name, "value-level")
        rows.append(f"| {name} | {m.get('property')} | {short(m.get('summary'), 230)}… | {short(m.get('needs_to_manifest'), 160)}… | {fs} | {before} |")
    rows.append("")
    rows.append(f"{n} seeded changes filed, {caught} reported by at least one check of the current analyser, {n - caught} missed.")
    return "\n".join(rows)

t = open(f"{V}/tools/DESIGN.tmpl.md").read()
na = len(glob.glob(f"{V}/selftest/*/benign-agent*-*.patch")); nh = len(glob.glob(f"{V}/selftest/*/benign-*.patch")) - na
benign = f"The self-test currently holds {na} agent-written and {nh} hand-written behaviour-preserving refactorings; all are silent."
t = t.replace("{{RULES}}", rules()).replace("{{SEEDS}}", seeds()).replace("{{BENIGN}}", benign)
open(f"{V}/DESIGN.md", "w").write(t)
print("DESIGN.md written,", len(t), "bytes")
