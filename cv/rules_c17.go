package main

import (
	"fmt"
	"go/constant"
	"go/token"
	"go/types"
	"strconv"
	"strings"

	"golang.org/x/tools/go/ssa"
)

func init() { register("C17", c17) }

// C17 — Encrypted transport (all clauses but byte-stream equality).
func c17(c *ctx) {
	r := c.r
	r.Explain = "Static decision of the transport's discipline: (R1) nonce — every AEAD Seal uses the send key/nonce and is followed by incrementNonce(send nonce) before the frame is written; every Open uses the receive key/nonce, its ok-edge is followed by incrementNonce(receive nonce) and its error edge returns an error; nonces are created and advanced nowhere else; " +
		"(R2) handshake gate — an authenticated EncryptedConn (Address set, nil error) is produced only after key swap, low-order-point blacklist, shared secret, HKDF, signature swap, VerifyBytes(challenge) true, meta swap, VerifyBytes(meta) true and network/chain equality; (R3) session binding — what is signed and what is verified is the HKDF challenge of this session's ephemeral keys; the identity recorded is the key that verified; the all-zero shared secret is rejected; (R4) frame length is bounded before it is used to slice; (R5) encrypted connections are made only by the handshake."
	r.NotCovered = []string{"bytes-in = bytes-out for all chunkings and read-buffer sizes (value-level: the unread buffer logic)", "ChaCha20-Poly1305 / X25519 / HKDF security", "ordering under concurrent Read/Write (locks are taken, not analysed)"}
	r.Trusted = []string{"crypto library primitives"}

	write := c.fn("p2p.(*EncryptedConn).Write")
	read := c.fn("p2p.(*EncryptedConn).Read")
	incr := c.fn("p2p.incrementNonce")
	handshake := c.fn("p2p.NewHandshake")
	newState := c.fn("p2p.newInternalState")
	if write == nil || read == nil || incr == nil || handshake == nil || newState == nil {
		return
	}
	isAEAD := func(cc *ssa.CallCommon, name string) bool {
		return cc.IsInvoke() && cc.Method.Name() == name && strings.HasSuffix(cc.Value.Type().String(), "cipher.AEAD")
	}
	connWrite := func(in ssa.Instruction) bool {
		cc := callCommon(in)
		return cc != nil && cc.IsInvoke() && cc.Method.Name() == "Write" && strings.HasSuffix(c.p.path(cc.Value), ".conn")
	}

	// ------------------------------------------------------------------ R1
	r.Rule("R1", "PAIR", "nonce discipline: Seal(send) → incrementNonce(send nonce) before the frame leaves; Open(receive) ok → incrementNonce(receive nonce), Open error → error return with no data; incrementNonce has no other caller; nonces are created only in newInternalState", 8)
	c.mpt(mptSpec{
		rule: "R1", fn: write, events: evSet{"incrementNonce": {incr}},
		extraEv: func(in ssa.Instruction) string {
			if cc := callCommon(in); cc != nil && isAEAD(cc, "Seal") {
				return "Seal"
			}
			return ""
		},
		resets: map[string][]string{"Seal": {"incrementNonce"}},
		target: func(in ssa.Instruction, st *PState, e *pathEngine) string {
			if connWrite(in) {
				return "frame-write"
			}
			if cc := callCommon(in); cc != nil && isAEAD(cc, "Seal") {
				return "next-seal"
			}
			if _, ok := in.(*ssa.Return); ok && in.Parent() == e.r.Fn {
				return "return"
			}
			return ""
		},
		reqs: func(l string) []string {
			switch l {
			case "frame-write":
				return []string{"!seen:Seal|seen:incrementNonce"}
			default:
				return []string{"!seen:Seal|seen:incrementNonce"}
			}
		},
		minTarget: 3,
	})
	c.mpt(mptSpec{
		rule: "R1", fn: read, events: evSet{"incrementNonce": {incr}},
		extraEv: func(in ssa.Instruction) string {
			if cc := callCommon(in); cc != nil && isAEAD(cc, "Open") {
				return "Open"
			}
			return ""
		},
		target: func(in ssa.Instruction, st *PState, e *pathEngine) string {
			ret, ok := in.(*ssa.Return)
			if !ok || in.Parent() != e.r.Fn {
				return ""
			}
			if st.Seen("Open") == 0 {
				return ""
			}
			if e.RetNil(ret, 1, st) == False {
				return "error-return-after-open"
			}
			return "data-return-after-open"
		},
		reqs: func(l string) []string {
			if l == "data-return-after-open" {
				return []string{"Open#1=T", "seen:incrementNonce"}
			}
			return nil
		},
		minTarget: 2,
	})
	// operands: send side uses c.send.*, receive side c.receive.*
	checkOperands := func(f *ssa.Function, op, side string) {
		instrs(f, func(in ssa.Instruction) {
			cc := callCommon(in)
			if cc == nil {
				return
			}
			if isAEAD(cc, op) {
				key, nonce := c.p.path(cc.Value), c.p.path(cc.Args[1])
				r.Check(key == "$0."+side+".aead" && strings.HasPrefix(nonce, "$0."+side+".nonce"), "R1/"+fnName(f)+"/"+op+"-operands", c.p.Pos(in.Pos()), op+"("+key+", "+nonce+")", op+" uses key "+key+" with nonce "+nonce+", expected the "+side+" direction's own key and nonce: reusing a nonce under one key breaks confidentiality and integrity")
			}
			if callIs(cc, incr) {
				n := c.p.path(cc.Args[0])
				r.Check(n == "$0."+side+".nonce", "R1/"+fnName(f)+"/increment-operand", c.p.Pos(in.Pos()), "advances "+n, fnName(f)+" advances "+n+" instead of the "+side+" nonce")
			}
		})
	}
	checkOperands(write, "Seal", "send")
	checkOperands(read, "Open", "receive")
	// the plaintext passed to the caller comes out of the buffer Open decrypted into
	c.whoCalls("R1", incr, allow{write: "after Seal", read: "after Open"})
	// no Seal/Open outside Read/Write in p2p
	for _, f := range c.p.Funcs {
		if pkgShort(f) != "p2p" || isTestFile(c.p, f.Pos()) {
			continue
		}
		instrs(f, func(in ssa.Instruction) {
			if cc := callCommon(in); cc != nil && (isAEAD(cc, "Seal") || isAEAD(cc, "Open")) {
				enc := enclosing(f)
				r.Check(enc == write || enc == read, "R1/aead-site/"+fnName(enc), c.p.Pos(in.Pos()), "AEAD used inside the framed Read/Write", "the AEAD is used directly in "+fnName(f)+", outside the nonce-disciplined Read/Write")
			}
		})
	}
	if nonceF := c.field("p2p", "aeadState", "nonce"); nonceF != nil {
		c.whoWrites("R1", nonceF, "aeadState.nonce", allow{newState: "fresh zero nonce per direction"}, false)
	}
	// incrementNonce never wraps silently into reuse? (it does reset at MaxUint64: noted, unreachable in practice)

	// ------------------------------------------------------------------ R2
	r.Rule("R2", "MPT", "handshake gate: Address is set / nil error is returned only after every step succeeded", 2)
	keySwap, sigSwap, metaSwap := c.fn("p2p.keySwap"), c.fn("p2p.signatureSwap"), c.fn("p2p.peerMetaSwap")
	blacklisted := c.fn("lib/crypto.PubIsBlacklisted")
	sharedSecret := c.fn("lib/crypto.SharedSecret")
	hkdf := c.fn("lib/crypto.HKDFSecretsAndChallenge")
	newPub := c.fn("lib/crypto.NewPublicKeyFromBytes")
	verifyM := c.p.IfaceMethod("lib/crypto", "PublicKeyI", "VerifyBytes")
	addrF := c.field("p2p", "EncryptedConn", "Address")
	if keySwap != nil && sigSwap != nil && metaSwap != nil && blacklisted != nil && sharedSecret != nil && hkdf != nil && newPub != nil && addrF != nil && r.Anchor(verifyM != nil, "crypto.PublicKeyI.VerifyBytes") {
		c.mpt(mptSpec{
			rule: "R2", fn: handshake,
			events: evSet{"keySwap": {keySwap}, "PubIsBlacklisted": {blacklisted}, "SharedSecret": {sharedSecret}, "HKDF": {hkdf}, "signatureSwap": {sigSwap}, "NewPublicKeyFromBytes": {newPub}, "peerMetaSwap": {metaSwap}},
			extraEv: func(in ssa.Instruction) string {
				if cc := callCommon(in); cc != nil && cc.IsInvoke() && cc.Method == verifyM {
					a0 := c.p.path(cc.Args[0])
					if strings.Contains(a0, "HKDFSecretsAndChallenge(") {
						return "VerifyChallenge"
					}
					if strings.HasSuffix(a0, ".SignBytes()") {
						return "VerifyMeta"
					}
					return "VerifyOther"
				}
				return ""
			},
			atom: cmpAtoms(c.p,
				cmpSpec{"network==", token.EQL, pathHasSuffix(".NetworkId"), pathIs("$1.NetworkId")},
				cmpSpec{"chain==", token.EQL, pathHasSuffix(".ChainId"), pathIs("$1.ChainId")}),
			target: func(in ssa.Instruction, st *PState, e *pathEngine) string {
				if f, _, _ := storeField(in); f == addrF {
					return "authenticated"
				}
				return tgtOkReturn("ok-return")(in, st, e)
			},
			reqs: func(string) []string {
				return []string{"keySwap.ok", "PubIsBlacklisted#0=F", "SharedSecret.ok", "HKDF.ok", "signatureSwap.ok", "NewPublicKeyFromBytes.ok", "VerifyChallenge#0=T", "peerMetaSwap.ok", "VerifyMeta#0=T", "@network===T", "@chain===T"}
			},
			minTarget: 2,
		})
		// ------------------------------------------------------------------ R3
		r.Rule("R3", "FLOW", "session binding: the challenge signed and verified is the one HKDF derived from this session's shared secret and both ephemeral keys; the shared secret comes from the peer's ephemeral key and our ephemeral private key; the identity recorded is the key that verified the challenge; SharedSecret rejects the all-zero secret", 7)
		instrs(handshake, func(in ssa.Instruction) {
			cc := callCommon(in)
			if cc == nil {
				return
			}
			switch {
			case callIs(cc, hkdf):
				sec, a, b := c.p.path(cc.Args[0]), c.p.path(cc.Args[1]), c.p.path(cc.Args[2])
				ok := has(sec, "SharedSecret(") && freshKey(a) && has(b, "keySwap(")
				r.Check(ok, "R3/hkdf-inputs", c.p.Pos(in.Pos()), "HKDF(shared secret, own ephemeral key, peer ephemeral key)", "HKDFSecretsAndChallenge is fed ("+sec+", "+a+", "+b+"): the challenge would not be bound to this session's ephemeral keys")
			case callIs(cc, sharedSecret):
				a, b := c.p.path(cc.Args[0]), c.p.path(cc.Args[1])
				ok := has(a, "keySwap(") && freshKey(b)
				r.Check(ok, "R3/shared-secret-inputs", c.p.Pos(in.Pos()), "SharedSecret(peer ephemeral public, own ephemeral private)", "SharedSecret is computed from ("+a+", "+b+")")
			case cc.IsInvoke() && cc.Method == verifyM:
				key, msg, sig := c.p.path(cc.Value), c.p.path(cc.Args[0]), c.p.path(cc.Args[1])
				if strings.Contains(msg, "HKDFSecretsAndChallenge(") {
					ok := has(key, "NewPublicKeyFromBytes(") && has(key, "signatureSwap(") && hasSuffix(key, ".PublicKey)#0") && has(sig, "signatureSwap(") && hasSuffix(sig, ".Signature")
					r.Check(ok, "R3/challenge-verification", c.p.Pos(in.Pos()), "peer's presented key verifies the peer's signature over this session's challenge", "the challenge verification is "+key+".VerifyBytes("+msg+", "+sig+"): not the presented key over this session's challenge")
				} else {
					ok := has(key, "signatureSwap(") && has(msg, "peerMetaSwap(") && has(sig, "peerMetaSwap(")
					r.Check(ok, "R3/meta-verification", c.p.Pos(in.Pos()), "peer metadata verified with the authenticated key", "the metadata verification is "+key+".VerifyBytes("+msg+", "+sig+")")
				}
			}
		})
		// our own signature is over the challenge, with the node key
		okSign := false
		instrs(handshake, func(in ssa.Instruction) {
			if cc := callCommon(in); cc != nil && cc.IsInvoke() && cc.Method.Name() == "Sign" && strings.Contains(c.p.path(cc.Args[0]), "HKDFSecretsAndChallenge(") && c.p.path(cc.Value) == "$2" {
				okSign = true
			}
		})
		r.Check(okSign, "R3/own-signature", c.p.Pos(handshake.Pos()), "the node key signs this session's challenge", "NewHandshake no longer signs this session's HKDF challenge with the node's private key")
		// the identity recorded is the verified key
		for _, st := range storesTo(handshake, addrF) {
			pkF := c.p.Field("lib", "PeerAddress", "PublicKey")
			v := litField(st.Val, pkF)
			p := "<unset>"
			if v != nil {
				p = c.p.path(v)
			}
			r.Check(has(p, "signatureSwap(") && hasSuffix(p, ".PublicKey"), "R3/recorded-identity", c.p.Pos(st.Pos()), "Address.PublicKey = the key that verified the challenge", "the connection's identity is set to "+p+", not the public key whose signature over the challenge was verified")
		}
		// SharedSecret rejects the all-zero output
		zeroChecked := false
		instrs(sharedSecret, func(in ssa.Instruction) {
			if cc := callCommon(in); cc != nil {
				n := calleeName(cc)
				if strings.Contains(n, "ConstantTimeCompare") || strings.Contains(n, "bytes.Equal") {
					zeroChecked = true
				}
			}
		})
		if !zeroChecked {
			// alternative: x/crypto curve25519.X25519 already rejects low-order results
			instrs(sharedSecret, func(in ssa.Instruction) {
				if cc := callCommon(in); cc != nil && strings.HasSuffix(calleeName(cc), "curve25519.X25519") {
					zeroChecked = true
				}
			})
		}
		r.Check(zeroChecked, "R3/zero-secret-rejected", c.p.Pos(sharedSecret.Pos()), "the all-zero shared secret is rejected", "SharedSecret no longer rejects the all-zero secret (low-order peer key): a man in the middle could force a known key")
	}

	// ------------------------------------------------------------------ R4
	r.Rule("R4", "MPT", "bounded frame: the decrypted length header is compared with MaxDataSize before it is used to slice the plaintext buffer; receiveLengthPrefixed bounds the message length before allocating", 2)
	constLE := func(short, name string) func(string) bool {
		lim := int64(-1)
		if pk := c.p.pkg(short); pk != nil {
			if o, ok := pk.Types.Scope().Lookup(name).(*types.Const); ok {
				if v, exact := constant.Int64Val(constant.ToInt(o.Val())); exact {
					lim = v
				}
			}
		}
		r.Anchor(lim >= 0, short+"."+name)
		return func(p string) bool {
			v, err := strconv.ParseInt(p, 10, 64)
			return err == nil && lim >= 0 && v >= 0 && v <= lim
		}
	}
	isMaxData := constLE("lib/crypto", "MaxDataSize")
	c.mpt(mptSpec{
		rule: "R4", fn: read, events: evSet{},
		atom: cmpAtoms(c.p, cmpSpec{"len>max", token.GTR, pathContains(".Uint32("), isMaxData}),
		target: func(in ssa.Instruction, st *PState, e *pathEngine) string {
			if sl, ok := in.(*ssa.Slice); ok && sl.High != nil && strings.Contains(c.p.path(sl.High), ".Uint32(") {
				return "slice-by-length"
			}
			return ""
		},
		reqs:      func(string) []string { return []string{"@len>max=F"} },
		minTarget: 1,
	})
	if recvLP := c.fnQuiet("p2p.receiveLengthPrefixed"); recvLP != nil {
		c.mpt(mptSpec{
			rule: "R4", fn: recvLP, events: evSet{},
			atom: cmpAtoms(c.p, cmpSpec{"len>max", token.GTR, pathContains("Uint32("), constLE("p2p", "maxMessageSize")}),
			target: func(in ssa.Instruction, st *PState, e *pathEngine) string {
				if ms, ok := in.(*ssa.MakeSlice); ok && strings.Contains(c.p.path(ms.Len), "Uint32(") {
					return "alloc-by-length"
				}
				return ""
			},
			reqs:      func(string) []string { return []string{"@len>max=F"} },
			minTarget: 1,
		})
	}

	// ------------------------------------------------------------------ R5
	r.Rule("R5", "WHO", "only the handshake makes encrypted connections: EncryptedConn values are allocated only in NewHandshake; the AEAD state is installed only there", 3)
	encT := c.p.Named("p2p", "EncryptedConn")
	if encT != nil {
		n := 0
		for _, f := range c.p.Funcs {
			if !inCanopy(f) || isTestFile(c.p, f.Pos()) {
				continue
			}
			instrs(f, func(in ssa.Instruction) {
				if a, ok := in.(*ssa.Alloc); ok {
					if nt := namedOf(a.Type()); nt != nil && nt.Obj() == encT.Obj() {
						if pt, ok := a.Type().(*types.Pointer); ok && pt.Elem() == types.Type(encT) {
							n++
							r.Check(enclosing(f) == handshake, "R5/EncryptedConn-alloc/"+fnName(enclosing(f)), c.p.Pos(in.Pos()), "allocated by the handshake", "an EncryptedConn is constructed in "+fnName(f)+", outside NewHandshake: it would carry no verified identity")
						}
					}
				}
			})
		}
		r.Check(n >= 1, "R5/EncryptedConn-alloc/count", c.p.Pos(handshake.Pos()), "handshake allocates the connection", "no EncryptedConn allocation found (rule needs re-reading)")
		for _, fld := range []string{"send", "receive"} {
			if fv := c.field("p2p", "EncryptedConn", fld); fv != nil {
				c.whoWrites("R5", fv, "EncryptedConn."+fld, allow{handshake: "installed from this session's HKDF output"}, false)
			}
		}
		for _, cs := range callsIn(handshake, false, newState) {
			p := c.p.path(argOf(cs, 0))
			r.Check(has(p, "HKDFSecretsAndChallenge("), "R5/aead-source", c.p.Pos(cs.Pos()), "AEAD from this session's HKDF", "an AEAD state is built from "+p+", not from this session's HKDF output")
		}
	}

	// ------------------------------------------------------------------ R6
	r.Rule("R6", "FLOW", "the HKDF output buffer is write-once: after io.ReadFull filled it nothing writes into it (directly or in a callee it is handed to) before keys and challenge are copied out; the challenge is copied from the buffer's tail, which does not overlap the two key ranges", 3)
	if hk := c.fn("lib/crypto.HKDFSecretsAndChallenge"); hk != nil {
		// the buffer: the array allocation handed to io.ReadFull
		var buf ssa.Value
		instrs(hk, func(in ssa.Instruction) {
			if cc := callCommon(in); cc != nil && calleeName(cc) == "io.ReadFull" && len(cc.Args) == 2 {
				if sl, ok := cc.Args[1].(*ssa.Slice); ok {
					buf = sl.X
				}
			}
		})
		if buf == nil {
			r.Unk("R6/hkdf-buffer", c.p.Pos(hk.Pos()), "could not find the buffer io.ReadFull fills from the HKDF reader")
		} else {
			var writesParam func(f *ssa.Function, i int, depth int) string
			writesParam = func(f *ssa.Function, i int, depth int) string {
				if f == nil || len(f.Blocks) == 0 || i >= len(f.Params) || depth > 2 {
					return ""
				}
				der := map[ssa.Value]bool{f.Params[i]: true}
				for ch := true; ch; {
					ch = false
					instrs(f, func(in ssa.Instruction) {
						v, ok := in.(ssa.Value)
						if !ok || der[v] {
							return
						}
						switch x := in.(type) {
						case *ssa.Slice:
							if der[x.X] {
								der[v], ch = true, true
							}
						case *ssa.IndexAddr:
							if der[x.X] {
								der[v], ch = true, true
							}
						case *ssa.Phi:
							for _, e := range x.Edges {
								if der[e] {
									der[v], ch = true, true
								}
							}
						}
					})
				}
				found := ""
				instrs(f, func(in ssa.Instruction) {
					switch x := in.(type) {
					case *ssa.Store:
						if der[x.Addr] {
							found = "stores into it at " + c.p.Pos(in.Pos())
						}
					case ssa.CallInstruction:
						cc := x.Common()
						if b, ok := cc.Value.(*ssa.Builtin); ok {
							if (b.Name() == "clear" || b.Name() == "copy") && len(cc.Args) > 0 && der[cc.Args[0]] {
								found = b.Name() + "s into it at " + c.p.Pos(in.Pos())
							}
							return
						}
						if callee := cc.StaticCallee(); callee != nil {
							for ai, a := range cc.Args {
								if der[a] {
									if w := writesParam(callee, ai, depth+1); w != "" {
										found = "hands it to " + fnName(callee) + " which " + w
									}
								}
							}
						}
					}
				})
				return found
			}
			// every use of the buffer in HKDFSecretsAndChallenge
			der := map[ssa.Value]bool{buf: true}
			instrs(hk, func(in ssa.Instruction) {
				if sl, ok := in.(*ssa.Slice); ok && der[sl.X] {
					der[sl] = true
				}
			})
			nUses := 0
			instrs(hk, func(in ssa.Instruction) {
				cs, ok := in.(ssa.CallInstruction)
				if !ok {
					return
				}
				cc := cs.Common()
				for ai, a := range cc.Args {
					if !der[a] {
						continue
					}
					nUses++
					name := calleeName(cc)
					if name == "io.ReadFull" {
						r.OK("R6/buffer-use/io.ReadFull", c.p.Pos(in.Pos()), "the single fill of the buffer from the HKDF reader")
						continue
					}
					if b, ok := cc.Value.(*ssa.Builtin); ok {
						bad := (b.Name() == "copy" || b.Name() == "clear") && ai == 0
						r.Check(!bad, "R6/buffer-use/"+b.Name(), c.p.Pos(in.Pos()), b.Name()+" reads the buffer", "HKDFSecretsAndChallenge "+b.Name()+"s into the HKDF output buffer after it was filled: keys/challenge derived afterwards are no longer the HKDF output")
						continue
					}
					w := ""
					if callee := cc.StaticCallee(); callee != nil {
						w = writesParam(callee, ai, 0)
					}
					r.Check(w == "", "R6/buffer-use/"+name, c.p.Pos(in.Pos()), name+" only reads the buffer", "the HKDF output buffer is handed to "+name+", which "+w+": the challenge copied afterwards is no longer derived from the session secret (a constant challenge can be replayed and relayed)")
				}
			})
			r.Check(nUses >= 3, "R6/buffer-use/count", c.p.Pos(hk.Pos()), fmt.Sprintf("%d uses of the buffer examined", nUses), "fewer uses of the HKDF buffer than known (fill, key extraction, challenge copy)")
			// the challenge comes from the tail of the buffer
			okCh := false
			instrs(hk, func(in ssa.Instruction) {
				if cc := callCommon(in); cc != nil {
					if b, ok := cc.Value.(*ssa.Builtin); ok && b.Name() == "copy" && len(cc.Args) == 2 {
						if sl, ok := cc.Args[1].(*ssa.Slice); ok && sl.X == buf && sl.Low != nil {
							lo := c.p.path(sl.Low)
							// low bound must be the end of the two key ranges (2 * AEADKeySize)
							if two, ok := c.p.pkg("lib/crypto").Types.Scope().Lookup("TwoAEADKeySize").(*types.Const); ok && lo == two.Val().ExactString() {
								okCh = true
							}
						}
					}
				}
			})
			r.Check(okCh, "R6/challenge-source", c.p.Pos(hk.Pos()), "challenge = buffer[TwoAEADKeySize:]", "the challenge is no longer copied from the HKDF buffer's tail (beyond the two key ranges)")
		}
	}

	// ------------------------------------------------------------------ R7
	// a frame counter narrower than 64 bits wraps within a session's lifetime (2^32 frames): the same key/nonce pair then
	// seals two frames, and a recorded frame replays. Structural necessary condition, not the arithmetic itself.
	r.Rule("R7", "COVER", "the frame counter is 64 bits wide: every encoding/binary access in incrementNonce is Uint64 / PutUint64", 1)
	if incr != nil {
		rd, wr := 0, 0
		for _, g := range bodyFuncs(incr, true) {
			instrs(g, func(in ssa.Instruction) {
				cc := callCommon(in)
				if cc == nil {
					return
				}
				sc := cc.StaticCallee()
				if sc == nil || sc.Pkg == nil || sc.Pkg.Pkg.Path() != "encoding/binary" {
					return
				}
				switch sc.Name() {
				case "Uint64":
					rd++
					r.OK("R7/incrementNonce/read", c.p.Pos(in.Pos()), "64-bit read of the counter")
				case "PutUint64", "AppendUint64":
					wr++
					r.OK("R7/incrementNonce/write", c.p.Pos(in.Pos()), "64-bit write of the counter")
				default:
					r.Bad("R7/incrementNonce/"+sc.Name(), c.p.Pos(in.Pos()), "incrementNonce accesses the frame counter with binary."+sc.Name()+": a counter narrower than 64 bits wraps within the life of a connection, after which a key/nonce pair is reused and recorded frames are accepted again")
				}
			})
		}
		if rd+wr == 0 {
			r.OK("R7/incrementNonce/width", c.p.Pos(incr.Pos()), "the counter is not accessed through encoding/binary: its width is not decided by this rule")
		} else {
			r.Check(rd >= 1 && wr >= 1, "R7/incrementNonce/width", c.p.Pos(incr.Pos()), "counter read and written back as 64 bits", "incrementNonce reads or writes the counter as 64 bits on one side only")
		}
	}
}

// freshKey: every value the path can take is (derived from) the result of a key generation made by
// this very handshake, not a key fetched from a longer-lived place that a generation merely fed.
func freshKey(p string) bool {
	return allAlts(p, func(a string) bool {
		return strings.HasPrefix(a, "lib/crypto.NewEd25519PrivateKey()#0") || strings.HasPrefix(a, "lib/crypto.NewEd25519PrivateKey().")
	})
}
