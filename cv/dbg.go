package main

import (
	"fmt"
	"os"

	"golang.org/x/tools/go/ssa"
)

func init() {
	if os.Getenv("DBG_FN") == "" {
		return
	}
	register("DBG", func(c *ctx) {
		c.r.Rule("D", "dbg", "debug", 0)
		f := c.p.Fn(os.Getenv("DBG_FN"))
		if f == nil {
			fmt.Println("no such fn")
			return
		}
		for _, g := range withAnons(f) {
			fmt.Println("FUNC", fnName(g))
			for _, b := range g.Blocks {
				fmt.Printf(" block %d preds=%v succs=%v\n", b.Index, b.Preds, b.Succs)
				for _, in := range b.Instrs {
					s := ""
					if v, ok := in.(ssa.Value); ok {
						s = v.Name() + " = "
					}
					extra := ""
					if cc := callCommon(in); cc != nil {
						extra = "   // callee=" + calleeName(cc)
					}
					fmt.Printf("   %s%s%s\n", s, in.String(), extra)
				}
			}
		}
	})
}
