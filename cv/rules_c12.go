package main

import (
	"fmt"
	"go/token"
	"strings"

	"golang.org/x/tools/go/ssa"
)

func init() { register("C12", c12) }

// C12 — Staking bookkeeping stays consistent and the chain never wedges itself (structural part).
func c12(c *ctx) {
	r := c.r
	r.Explain = "Static decision of the marker/record/tally discipline: (R1) wherever a validator record is deleted its unstaking and paused markers are deleted on the same path (or the caller is the deferred consumer that deletes the marker list itself); (R2) marker and record are written together with the same height; " +
		"(R3) every stake change updates the staked/delegated tallies and the committee membership with the same value; (R4) the deferred consumers delete exactly the keys they consumed; (R5) a validator gets at most one unstaking / paused marker: every marker write is dominated by the record's height field being zero."
	r.NotCovered = []string{"'the next block can always be applied' in general (needs values: parameters, heights, balances)", "arithmetic of tallies over histories", "non-signer window counters"}
	r.Trusted = []string{"fsm.StateMachine.Set/Delete write the keys they are given"}

	deleteValidator := c.fn("fsm.(*StateMachine).DeleteValidator")
	smDelete := c.fn("fsm.(*StateMachine).Delete")
	smSet := c.fn("fsm.(*StateMachine).Set")
	setValidator := c.fn("fsm.(*StateMachine).SetValidator")
	setUnstaking := c.fn("fsm.(*StateMachine).SetValidatorUnstaking")
	setPaused := c.fn("fsm.(*StateMachine).SetValidatorPaused")
	setUnpaused := c.fn("fsm.(*StateMachine).SetValidatorUnpaused")
	deleteFinished := c.fn("fsm.(*StateMachine).DeleteFinishedUnstaking")
	forceMaxPaused := c.fn("fsm.(*StateMachine).ForceUnstakeMaxPaused")
	deleteAll := c.fn("fsm.(*StateMachine).DeleteAll")
	unstakingF := c.field("fsm", "Validator", "UnstakingHeight")
	pausedF := c.field("fsm", "Validator", "MaxPausedHeight")
	stakedF := c.field("fsm", "Validator", "StakedAmount")
	if deleteValidator == nil || smDelete == nil || smSet == nil || setValidator == nil || setUnstaking == nil || setPaused == nil || setUnpaused == nil || deleteFinished == nil || forceMaxPaused == nil || deleteAll == nil || unstakingF == nil || pausedF == nil || stakedF == nil {
		return
	}
	// event: s.Delete / s.Set of a marker key built by KeyForUnstaking / KeyForPaused for validator path vp
	markerEv := func(vp string) func(in ssa.Instruction) string {
		return func(in ssa.Instruction) string {
			cc := callCommon(in)
			if cc == nil {
				return ""
			}
			isDel, isSet := callIs(cc, smDelete), callIs(cc, smSet)
			if !isDel && !isSet {
				return ""
			}
			k := c.p.path(cc.Args[1])
			kind := ""
			switch {
			case strings.HasPrefix(k, "fsm.KeyForUnstaking("):
				kind = "UnstakingMarker"
			case strings.HasPrefix(k, "fsm.KeyForPaused("):
				kind = "PausedMarker"
			default:
				return ""
			}
			_ = vp
			if isDel {
				return "Del" + kind
			}
			return "Set" + kind
		}
	}

	// ------------------------------------------------------------------ R1
	r.Rule("R1", "PAIR", "every deletion of a validator record (DeleteValidator) is preceded on the same path by the deletion of its unstaking marker unless UnstakingHeight==0 is established, and of its paused marker unless MaxPausedHeight==0 is established; the deferred consumer DeleteFinishedUnstaking deletes the consumed marker list itself", 2)
	for _, s := range c.p.callSitesOf(deleteValidator) {
		if !inCanopy(s.Caller) || isTestFile(c.p, s.Site.Pos()) {
			continue
		}
		enc := enclosing(s.Caller)
		if enc == deleteFinished {
			// consumer: the marker being consumed is in the list deleted by DeleteAll (R4); an unstaking validator has no paused marker (SetValidatorUnstaking unpauses, R2)
			r.OK("R1/DeleteValidator/"+fnName(enc), c.p.Pos(s.Site.Pos()), "deferred consumer: deletes the consumed unstaking markers itself (R4); unstaking validators carry no paused marker (R2)")
			continue
		}
		vp := c.p.path(argOf(s.Site, 0))
		site := s.Site
		c.mpt(mptSpec{
			rule: "R1", fn: s.Caller, events: evSet{},
			extraEv: func(in ssa.Instruction) string {
				n := markerEv(vp)(in)
				if n == "" {
					return ""
				}
				// the marker key must be built from the record's own height field
				k := c.p.path(callCommon(in).Args[1])
				if n == "DelUnstakingMarker" && strings.HasPrefix(k, "fsm.KeyForUnstaking("+vp+".UnstakingHeight,") {
					return n
				}
				if n == "DelPausedMarker" && strings.HasPrefix(k, "fsm.KeyForPaused("+vp+".MaxPausedHeight,") {
					return n
				}
				return ""
			},
			atom: cmpAtoms(c.p,
				cmpSpec{"unstaking==0", token.EQL, pathIs(vp + ".UnstakingHeight"), pathIs("0")},
				cmpSpec{"paused==0", token.EQL, pathIs(vp + ".MaxPausedHeight"), pathIs("0")}),
			target: func(in ssa.Instruction, st *PState, e *pathEngine) string {
				if in == site.(ssa.Instruction) {
					return "DeleteValidator"
				}
				return ""
			},
			reqs: func(string) []string {
				return []string{"@unstaking==0=T|DelUnstakingMarker.ok", "@paused==0=T|DelPausedMarker.ok"}
			},
			minTarget: 1,
		})
	}
	// no raw deletion of a validator record outside DeleteValidator
	for _, f := range c.p.Funcs {
		if pkgShort(f) != "fsm" || isTestFile(c.p, f.Pos()) {
			continue
		}
		for _, cs := range callsIn(f, false, smDelete) {
			if strings.HasPrefix(c.p.path(argOf(cs, 0)), "fsm.KeyForValidator(") {
				r.Check(enclosing(f) == deleteValidator, "R1/raw-record-delete/"+fnName(f), c.p.Pos(cs.Pos()), "the record is deleted by DeleteValidator", fnName(f)+" deletes a validator record directly, bypassing DeleteValidator's tally and marker discipline")
			}
		}
	}

	// ------------------------------------------------------------------ R2
	r.Rule("R2", "PAIR", "marker and record move together: SetValidatorUnstaking writes KeyForUnstaking(h,a), sets UnstakingHeight=h and stores the record (and unpauses a paused validator first); SetValidatorPaused likewise; SetValidatorUnpaused deletes KeyForPaused(record.MaxPausedHeight,a) before zeroing the field", 3)
	c.mpt(mptSpec{
		rule: "R2", fn: setUnstaking, events: evSet{"SetValidator": {setValidator}, "SetValidatorUnpaused": {setUnpaused}},
		extraEv: firstOf(markerEv("$2"), storeFieldEvent("UnstakingHeight=", unstakingF)),
		atom:    cmpAtoms(c.p, cmpSpec{"paused==0", token.EQL, pathIs("$2.MaxPausedHeight"), pathIs("0")}),
		target:  tgtOkReturn("ok-return"),
		reqs: func(string) []string {
			return []string{"SetUnstakingMarker.ok", "seen:UnstakingHeight=", "seen:SetValidator", "@paused==0=T|SetValidatorUnpaused.ok"}
		},
		minTarget: 1,
	})
	for _, cs := range callsIn(setUnstaking, false, smSet) {
		k := c.p.path(argOf(cs, 0))
		r.Check(k == "fsm.KeyForUnstaking($3,$1)", "R2/SetValidatorUnstaking/marker-key", c.p.Pos(cs.Pos()), "marker key = KeyForUnstaking(height, address)", "SetValidatorUnstaking writes marker "+k+", expected KeyForUnstaking(finishUnstakingHeight, address)")
	}
	for _, st := range storesTo(setUnstaking, unstakingF) {
		p := c.p.path(st.Val)
		r.Check(p == "$3", "R2/SetValidatorUnstaking/record-height", c.p.Pos(st.Pos()), "record height = marker height", "SetValidatorUnstaking stores UnstakingHeight="+p+" but the marker is written at $3: end-block would look for the record at another height")
	}
	c.mpt(mptSpec{
		rule: "R2", fn: setPaused, events: evSet{"SetValidator": {setValidator}},
		extraEv: firstOf(markerEv("$2"), storeFieldEvent("MaxPausedHeight=", pausedF)),
		target:  tgtOkReturn("ok-return"),
		reqs: func(string) []string {
			return []string{"SetPausedMarker.ok", "seen:MaxPausedHeight=", "seen:SetValidator"}
		}, minTarget: 1,
	})
	for _, cs := range callsIn(setPaused, false, smSet) {
		k := c.p.path(argOf(cs, 0))
		r.Check(k == "fsm.KeyForPaused($3,$1)", "R2/SetValidatorPaused/marker-key", c.p.Pos(cs.Pos()), "marker key = KeyForPaused(height, address)", "SetValidatorPaused writes marker "+k+", expected KeyForPaused(maxPausedHeight, address)")
	}
	for _, st := range storesTo(setPaused, pausedF) {
		p := c.p.path(st.Val)
		r.Check(p == "$3", "R2/SetValidatorPaused/record-height", c.p.Pos(st.Pos()), "record height = marker height", "SetValidatorPaused stores MaxPausedHeight="+p+" but the marker is written at $3")
	}
	c.mpt(mptSpec{
		rule: "R2", fn: setUnpaused, events: evSet{"SetValidator": {setValidator}},
		extraEv: firstOf(markerEv("$2"), storeFieldEvent("MaxPausedHeight=", pausedF)),
		target: func(in ssa.Instruction, st *PState, e *pathEngine) string {
			if f, _, _ := storeField(in); f == pausedF {
				return "zero-field"
			}
			return tgtOkReturn("ok-return")(in, st, e)
		},
		reqs: func(l string) []string {
			if l == "zero-field" {
				return []string{"DelPausedMarker.ok"}
			}
			return []string{"DelPausedMarker.ok", "seen:MaxPausedHeight=", "seen:SetValidator"}
		},
		minTarget: 2,
	})
	for _, cs := range callsIn(setUnpaused, false, smDelete) {
		k := c.p.path(argOf(cs, 0))
		r.Check(k == "fsm.KeyForPaused($2.MaxPausedHeight,$1)", "R2/SetValidatorUnpaused/marker-key", c.p.Pos(cs.Pos()), "deletes the marker at the record's own MaxPausedHeight", "SetValidatorUnpaused deletes "+k+", expected KeyForPaused(validator.MaxPausedHeight, address)")
	}

	// ------------------------------------------------------------------ R3
	r.Rule("R3", "BAL", "tallies in step: HandleMessageStake, UpdateValidatorStake and DeleteValidator update the staked supply, the delegate supply (for delegates) and the committee/delegation membership with the same amount as the record; SlashValidator's surviving branch subtracts the slashed amount from the staked supply and re-weights the committees with the new stake", 12)
	addStaked, subStaked := c.fn("fsm.(*StateMachine).AddToStakedSupply"), c.fn("fsm.(*StateMachine).SubFromStakedSupply")
	addDeleg, subDeleg := c.fn("fsm.(*StateMachine).AddToDelegateSupply"), c.fn("fsm.(*StateMachine).SubFromDelegateSupply")
	setCommittees, setDelegations := c.fn("fsm.(*StateMachine).SetCommittees"), c.fn("fsm.(*StateMachine).SetDelegations")
	updCommittees, updDelegations := c.fn("fsm.(*StateMachine).UpdateCommittees"), c.fn("fsm.(*StateMachine).UpdateDelegations")
	delCommittees, delDelegations := c.fn("fsm.(*StateMachine).DeleteCommittees"), c.fn("fsm.(*StateMachine).DeleteDelegations")
	stake := c.fn("fsm.(*StateMachine).HandleMessageStake")
	updStake := c.fn("fsm.(*StateMachine).UpdateValidatorStake")
	slash := c.fn("fsm.(*StateMachine).SlashValidator")
	if addStaked != nil && subStaked != nil && addDeleg != nil && subDeleg != nil && setCommittees != nil && setDelegations != nil && updCommittees != nil && updDelegations != nil && delCommittees != nil && delDelegations != nil && stake != nil && updStake != nil && slash != nil {
		argsAre := func(f *ssa.Function, callee *ssa.Function, idx int, want string, what string) {
			cs := callsIn(f, false, callee)
			if len(cs) == 0 {
				r.Bad("R3/"+fnName(f)+"/"+what, c.p.Pos(f.Pos()), fnName(f)+" no longer calls "+fnName(callee))
				return
			}
			for _, x := range cs {
				p := c.p.path(argOf(x, idx))
				r.Check(p == want, "R3/"+fnName(f)+"/"+what, c.p.Pos(x.Pos()), what+" = "+p, fnName(f)+" passes "+p+" to "+fnName(callee)+", expected "+want+": the tally and the record would drift apart")
			}
		}
		delegAtom := func(vp string) func(v ssa.Value) (string, bool) {
			return func(v ssa.Value) (string, bool) {
				if c.p.path(v) == vp+".Delegate" {
					return "delegate", false
				}
				return "", false
			}
		}
		// HandleMessageStake
		c.mpt(mptSpec{rule: "R3", fn: stake,
			events: evSet{"AddToStakedSupply": {addStaked}, "AddToDelegateSupply": {addDeleg}, "SetDelegations": {setDelegations}, "SetCommittees": {setCommittees}},
			atom:   delegAtom("$1"), target: tgtCall("SetValidator", setValidator),
			reqs: func(string) []string {
				return []string{"AddToStakedSupply.ok", "@delegate=F|AddToDelegateSupply.ok", "@delegate=F|SetDelegations.ok", "@delegate=T|SetCommittees.ok"}
			}, minTarget: 1})
		argsAre(stake, addStaked, 0, "$1.Amount", "staked-supply delta")
		argsAre(stake, addDeleg, 0, "$1.Amount", "delegate-supply delta")
		argsAre(stake, setDelegations, 1, "$1.Amount", "delegation weight")
		argsAre(stake, setCommittees, 1, "$1.Amount", "committee weight")
		for _, cs := range callsIn(stake, false, setValidator) {
			v := litField(argOf(cs, 0), stakedF)
			p := "<unset>"
			if v != nil {
				p = c.p.path(v)
			}
			r.Check(p == "$1.Amount", "R3/"+fnName(stake)+"/record-stake", c.p.Pos(cs.Pos()), "record stake = "+p, "the new validator record carries stake "+p+" but the tallies were increased by $1.Amount")
		}
		// UpdateValidatorStake
		c.mpt(mptSpec{rule: "R3", fn: updStake,
			events: evSet{"AddToStakedSupply": {addStaked}, "AddToDelegateSupply": {addDeleg}, "UpdateDelegations": {updDelegations}, "UpdateCommittees": {updCommittees}},
			atom:   delegAtom("$1"), target: tgtCall("SetValidator", setValidator),
			reqs: func(string) []string {
				return []string{"AddToStakedSupply.ok", "@delegate=F|AddToDelegateSupply.ok", "@delegate=F|UpdateDelegations.ok", "@delegate=T|UpdateCommittees.ok"}
			}, minTarget: 1})
		argsAre(updStake, addStaked, 0, "$3", "staked-supply delta")
		argsAre(updStake, addDeleg, 0, "$3", "delegate-supply delta")
		argsAre(updStake, updDelegations, 2, "($1.StakedAmount + $3)", "delegation weight")
		argsAre(updStake, updCommittees, 2, "($1.StakedAmount + $3)", "committee weight")
		for _, st := range storesTo(updStake, stakedF) {
			p := c.p.path(st.Val)
			r.Check(p == "($1.StakedAmount + $3)", "R3/"+fnName(updStake)+"/record-stake", c.p.Pos(st.Pos()), "record stake = old + delta", "UpdateValidatorStake stores stake "+p+", expected old stake + the delta added to the tallies")
		}
		// DeleteValidator
		c.mpt(mptSpec{rule: "R3", fn: deleteValidator,
			events: evSet{"SubFromStakedSupply": {subStaked}, "SubFromDelegateSupply": {subDeleg}, "DeleteDelegations": {delDelegations}, "DeleteCommittees": {delCommittees}},
			atom:   delegAtom("$1"), target: tgtCall("Delete", smDelete),
			reqs: func(string) []string {
				return []string{"SubFromStakedSupply.ok", "@delegate=F|SubFromDelegateSupply.ok", "@delegate=F|DeleteDelegations.ok", "@delegate=T|DeleteCommittees.ok"}
			}, minTarget: 1})
		argsAre(deleteValidator, subStaked, 0, "$1.StakedAmount", "staked-supply delta")
		argsAre(deleteValidator, subDeleg, 0, "$1.StakedAmount", "delegate-supply delta")
		argsAre(deleteValidator, delDelegations, 1, "$1.StakedAmount", "delegation weight")
		argsAre(deleteValidator, delCommittees, 1, "$1.StakedAmount", "committee weight")
		// SlashValidator surviving branch
		c.mpt(mptSpec{rule: "R3", fn: slash,
			events: evSet{"SubFromStakedSupply": {subStaked}, "UpdateCommittees": {updCommittees}},
			target: tgtCall("SetValidator", setValidator),
			reqs:   func(string) []string { return []string{"SubFromStakedSupply.ok", "UpdateCommittees.ok"} }, minTarget: 1})
		var afterP string
		for _, st := range storesTo(slash, stakedF) {
			afterP = c.p.path(st.Val)
		}
		for _, x := range callsIn(slash, false, subStaked) {
			p := c.p.path(argOf(x, 0))
			r.Check(afterP != "" && p == "($1.StakedAmount - "+afterP+")", "R3/"+fnName(slash)+"/staked-supply delta", c.p.Pos(x.Pos()), "supply delta = old stake - new stake", "SlashValidator subtracts "+p+" from the staked supply but stores stake "+afterP+": expected old - new")
		}
		for _, x := range callsIn(slash, false, updCommittees) {
			p := c.p.path(argOf(x, 2))
			r.Check(p == afterP, "R3/"+fnName(slash)+"/committee weight", c.p.Pos(x.Pos()), "committees re-weighted with the new stake", "SlashValidator re-weights the committees with "+p+" but stores stake "+afterP)
		}
	}
	// who writes Validator.StakedAmount on an existing record
	c.whoWrites("R3", stakedF, "Validator.StakedAmount", allow{
		updStake: "stake increase, tallies updated (above)", slash: "slash, tallies updated (above)",
		c.fnQuiet("fsm.(*Validator).UnmarshalJSON"): "JSON decoding", c.fnQuiet("fsm.(*StateMachine).unmarshalValidator"): "decoding from state bytes",
	}, true)

	// ------------------------------------------------------------------ R4
	r.Rule("R4", "PAIR", "deferred consumers delete what they consume: DeleteFinishedUnstaking and ForceUnstakeMaxPaused return ok only through DeleteAll of the key list their callback collected", 2)
	for _, f := range []*ssa.Function{deleteFinished, forceMaxPaused} {
		okTail := false
		instrs(f, func(in ssa.Instruction) {
			if ret, ok := in.(*ssa.Return); ok && len(ret.Results) == 1 {
				if call, ok := ret.Results[0].(*ssa.Call); ok && callIs(call.Common(), deleteAll) {
					okTail = true
				}
			}
		})
		r.Check(okTail, "R4/"+fnName(f)+"/tail", c.p.Pos(f.Pos()), "success path ends in DeleteAll(collected keys)", fnName(f)+" no longer ends in DeleteAll of the consumed marker keys: consumed markers would fire again or dangle")
		// the callback appends its key parameter to the list that is deleted
		appended := false
		for _, a := range f.AnonFuncs {
			instrs(a, func(in ssa.Instruction) {
				if cc := callCommon(in); cc != nil {
					if b, ok := cc.Value.(*ssa.Builtin); ok && b.Name() == "append" && len(cc.Args) == 2 {
						for _, e := range sliceLitElems(cc.Args[1]) {
							if c.p.path(e) == "$0" {
								appended = true
							}
						}
					}
				}
			})
		}
		r.Check(appended, "R4/"+fnName(f)+"/collects-key", c.p.Pos(f.Pos()), "callback appends each consumed key to the delete list", fnName(f)+"'s callback no longer collects the consumed key for deletion")
	}

	// ------------------------------------------------------------------ R5
	r.Rule("R5", "MPT", "at most one marker per validator: every call of SetValidatorUnstaking is dominated by UnstakingHeight==0 of the record passed, every SetValidatorPaused by MaxPausedHeight==0 (genesis import, which re-creates the marker at the record's own height, excepted)", 4)
	for _, mk := range []struct {
		callee *ssa.Function
		field  string
		atom   string
	}{{setUnstaking, "UnstakingHeight", "unstaking==0"}, {setPaused, "MaxPausedHeight", "paused==0"}} {
		for _, s := range c.p.callSitesOf(mk.callee) {
			if !inCanopy(s.Caller) || isTestFile(c.p, s.Site.Pos()) {
				continue
			}
			vp := c.p.path(argOf(s.Site, 1))
			hp := c.p.path(argOf(s.Site, 2))
			if hp == vp+"."+mk.field {
				r.OK("R5/"+fnName(mk.callee)+"/"+fnName(enclosing(s.Caller)), c.p.Pos(s.Site.Pos()), "import: the marker is (re)created at the record's own "+mk.field)
				continue
			}
			site := s.Site
			field, atom := mk.field, mk.atom
			c.mpt(mptSpec{
				rule: "R5", fn: s.Caller, events: evSet{},
				atom: cmpAtoms(c.p, cmpSpec{atom, token.EQL, pathIs(vp + "." + field), pathIs("0")}),
				kill: func(in ssa.Instruction) []string {
					// a store to that field invalidates what was learnt about it
					if f, _, _ := storeField(in); f != nil && f.Name() == field {
						return []string{atom}
					}
					return nil
				},
				target: func(in ssa.Instruction, st *PState, e *pathEngine) string {
					if in == site.(ssa.Instruction) {
						return fnName(mk.callee)
					}
					return ""
				},
				reqs:      func(string) []string { return []string{"@" + atom + "=T"} },
				minTarget: 1,
			})
		}
	}
	_ = fmt.Sprint

	// ------------------------------------------------------------------ R6
	r.Rule("R6", "FLOW", "stake-changing primitives work on a record read for that operation: the *Validator handed to SlashValidator, UpdateValidatorStake, DeleteValidator, SetValidatorUnstaking, SetValidatorPaused/Unpaused is the result of a state read (GetValidator, an iterator's unmarshalValidator) or the caller's own parameter — never a copy remembered in a local map or slice across operations (a remembered struct goes stale when an earlier operation deletes or rewrites the record)", 6)
	nSites := 0
	for _, spec := range []struct {
		fn  string
		arg int
	}{{"fsm.(*StateMachine).SlashValidator", 0}, {"fsm.(*StateMachine).UpdateValidatorStake", 0}, {"fsm.(*StateMachine).DeleteValidator", 0},
		{"fsm.(*StateMachine).SetValidatorUnstaking", 1}, {"fsm.(*StateMachine).SetValidatorPaused", 1}, {"fsm.(*StateMachine).SetValidatorUnpaused", 1}} {
		target := c.fnQuiet(spec.fn)
		if target == nil {
			continue
		}
		for _, site := range c.p.callSitesOf(target) {
			if !inCanopy(site.Caller) || isTestFile(c.p, site.Site.Pos()) {
				continue
			}
			nSites++
			pth := c.p.path(stripLift(argOf(site.Site, spec.arg)))
			remembered := strings.Contains(pth, "makemap[") || strings.Contains(pth, "make[][") || strings.Contains(pth, "local:")
			for _, alt := range splitPhi(pth) {
				if strings.HasPrefix(alt, "makemap") || strings.HasPrefix(alt, "make[]") {
					remembered = true
				}
			}
			r.Check(!remembered, "R6/"+fnName(target)+"/record-source/"+fnName(enclosing(site.Caller)), c.p.Pos(site.Site.Pos()), "record = "+pth,
				fnName(enclosing(site.Caller))+" hands "+fnName(target)+" the record "+pth+", which can come from a local map/slice filled by an earlier iteration: after that iteration deleted or rewrote the validator the remembered struct is stale and the tallies are adjusted a second time")
		}
	}
	r.Check(nSites >= 6, "R6/sites", "?", fmt.Sprintf("%d call sites examined", nSites), fmt.Sprintf("only %d call sites of the stake-changing primitives found", nSites))

	// ------------------------------------------------------------------ R7
	c.ruleRecordRebuiltWhole("R7", "fsm", "Validator", map[string]string{}, 1)

}
