package main

import (
	"fmt"
	"go/token"
	"go/types"
	"strings"

	"golang.org/x/tools/go/ssa"
)

func init() { register("C02", c02) }

// C02 — Finality gate: only a +2/3-certified, correctly bound block is ever committed.
func c02(c *ctx) {
	r := c.r
	r.Explain = "Static decision of the finality gate: (R1) call-graph rule — the only roads to the durable commit go through Controller.HandlePeerBlock (genesis excepted); " +
		"(R2) path rule on HandlePeerBlock's SSA — every path to CommitCertificate passes the ok-edges of CheckBasic, Check with isPartialQC=false (exempt only when the syncing parameter is true), CheckProposalBasic and the PRECOMMIT_VOTE phase test; " +
		"(R3) provenance — the View/height/network/chain handed to the checks come from this node's config and FSM; (R4) path rules inside the checks themselves; (R5) sign-bytes field coverage; (R6) last-certificate gate."
	r.NotCovered = []string{"BLS aggregate-signature soundness (kyber)", "bitmap semantics inside MultiPublicKey.SetBitmap (padding bits)", "the numeric value of MinimumMaj23", "what fast-sync skips between checkpoints (the property's own exception)"}
	r.Trusted = []string{"lib/crypto BLS verification", "protobuf deterministic marshalling"}

	handlePeerBlock := c.fn("controller.(*Controller).HandlePeerBlock")
	commitCert := c.fn("controller.(*Controller).CommitCertificate")
	commitCertPar := c.fnQuiet("controller.(*Controller).CommitCertificateParallel")
	commitToStore := c.fnQuiet("controller.(*Controller).commitToStore")
	storeCommit := c.fn("store.(*Store).Commit")
	genesis := c.fn("fsm.(*StateMachine).NewFromGenesisFile")
	qcCheckBasic := c.fn("lib.(*QuorumCertificate).CheckBasic")
	qcCheck := c.fn("lib.(*QuorumCertificate).Check")
	qcCheckProposalBasic := c.fn("lib.(*QuorumCertificate).CheckProposalBasic")
	aggCheck := c.fn("lib.(*AggregateSignature).Check")
	if handlePeerBlock == nil || commitCert == nil || storeCommit == nil || qcCheck == nil || qcCheckBasic == nil || qcCheckProposalBasic == nil || aggCheck == nil {
		return
	}

	// ------------------------------------------------------------------ R1
	r.Rule("R1", "WHO", "every call chain to the durable commit (store.Store.Commit) passes through Controller.HandlePeerBlock; the only other caller is the genesis loader (height 0)", 4)
	al := allow{commitCert: "commit after the gate (its only caller is HandlePeerBlock, checked below)"}
	if genesis != nil {
		al[genesis] = "genesis: height 0 has no certificate"
	}
	if commitToStore != nil {
		al[commitToStore] = "helper of CommitCertificateParallel (callers checked below)"
	}
	c.whoCalls("R1", storeCommit, al)
	gate := allow{handlePeerBlock: "the gate"}
	c.whoCalls("R1", commitCert, gate)
	if commitCertPar != nil {
		c.whoCalls("R1", commitCertPar, gate)
		if commitToStore != nil {
			c.whoCalls("R1", commitToStore, allow{commitCertPar: "parallel variant of CommitCertificate"})
		}
	}
	// the bft.Controller interface also lists CommitCertificate: no invoke of it may exist in bft
	for _, f := range c.p.Funcs {
		if pkgShort(f) != "bft" {
			continue
		}
		instrs(f, func(in ssa.Instruction) {
			if cc := callCommon(in); cc != nil && cc.IsInvoke() && cc.Method.Name() == "CommitCertificate" {
				r.Bad("R1/bft-invokes-CommitCertificate/"+fnName(f), c.p.Pos(in.Pos()), "the consensus module calls Controller.CommitCertificate directly, bypassing HandlePeerBlock's certificate gate")
			}
		})
	}
	// the two call sites of HandlePeerBlock pass a constant `syncing`
	sites := c.whoCalls("R1", handlePeerBlock, allow{
		c.fnQuiet("controller.(*Controller).ListenForBlock"): "live gossip: syncing=false",
		c.fnQuiet("controller.(*Controller).processQueue"):   "sync queue: syncing=true",
	})
	for _, s := range sites {
		enc := fnName(enclosing(s.Caller))
		b, ok := constBoolArg(s.Site, 1)
		want := strings.HasSuffix(enc, "processQueue")
		switch {
		case !ok:
			r.Bad("R1/HandlePeerBlock-syncing-arg/"+enc, c.p.Pos(s.Site.Pos()), "the syncing argument is not a constant: the fast-sync exemption could be selected by runtime data")
		case b != want:
			r.Bad("R1/HandlePeerBlock-syncing-arg/"+enc, c.p.Pos(s.Site.Pos()), fmt.Sprintf("syncing=%v passed from %s (expected %v): certificate verification would be skipped for gossiped blocks", b, enc, want))
		default:
			r.OK("R1/HandlePeerBlock-syncing-arg/"+enc, c.p.Pos(s.Site.Pos()), fmt.Sprintf("constant syncing=%v", b))
		}
	}

	// ------------------------------------------------------------------ R2
	r.Rule("R2", "MPT", "in HandlePeerBlock every path to CommitCertificate passes CheckBasic ok, Check ok with isPartialQC=false (exempt only if syncing), CheckProposalBasic ok, Phase==PRECOMMIT_VOTE", 1)
	phaseField := c.field("lib", "View", "Phase")
	var phaseConst = c.p.pkg("lib").Types.Scope().Lookup("Phase_PRECOMMIT_VOTE")
	r.Anchor(phaseConst != nil, "lib.Phase_PRECOMMIT_VOTE")
	if phaseField != nil && phaseConst != nil {
		targets := []*ssa.Function{commitCert}
		if commitCertPar != nil {
			targets = append(targets, commitCertPar)
		}
		c.mpt(mptSpec{
			rule: "R2", fn: handlePeerBlock,
			events: evSet{"CheckBasic": {qcCheckBasic}, "Check": {qcCheck}, "CheckProposalBasic": {qcCheckProposalBasic}},
			atom:   atoms(paramAtom("syncing"), eqConstAtom("phase==PRECOMMIT_VOTE", phaseField, phaseConst)),
			target: tgtCall("commit", targets...),
			reqs: func(string) []string {
				return []string{"CheckBasic.ok", "Check.ok|@syncing=T", "Check#0=F|@syncing=T", "CheckProposalBasic.ok", "@phase==PRECOMMIT_VOTE=T"}
			},
			minTarget: 1,
		})
	}

	// ------------------------------------------------------------------ R3
	r.Rule("R3", "FLOW", "the checks in HandlePeerBlock are bound to this node: View{NetworkId,ChainId} and CheckProposalBasic(height,network,chain) come from c.Config / c.FSM.Height(); the committee is loaded for qc.Header.RootHeight", 6)
	viewNet, viewChain := c.field("lib", "View", "NetworkId"), c.field("lib", "View", "ChainId")
	for _, cs := range callsIn(handlePeerBlock, true, qcCheck) {
		view := argOf(cs, 2)
		for _, fc := range []struct {
			fv   string
			want string
		}{{"NetworkId", "$0.Config.NetworkID"}, {"ChainId", "$0.Config.ChainId"}} {
			fvar := viewNet
			if fc.fv == "ChainId" {
				fvar = viewChain
			}
			if fvar == nil {
				continue
			}
			val := litField(view, fvar)
			got := "<not set>"
			if val != nil {
				got = c.p.path(val)
			}
			r.Check(got == fc.want, "R3/Check-view/"+fc.fv, c.p.Pos(cs.Pos()), "View."+fc.fv+" = "+got, "View."+fc.fv+" passed to QuorumCertificate.Check is "+got+", expected this node's "+fc.want+": a certificate for another network/chain would be accepted")
		}
		// enforceHeights false is what the code does today; the committee must be loaded at the certificate's root height
		vs := c.p.path(argOf(cs, 0))
		r.Check(has(vs, "LoadCommittee(") && has(vs, ".BlockAndCertificate.Header.RootHeight)"), "R3/Check-committee", c.p.Pos(cs.Pos()),
			"committee = "+vs, "the validator set passed to Check is "+vs+", expected LoadCommittee(_, qc.Header.RootHeight): the certificate would be verified against the wrong committee")
		recv := c.p.path(recvOf(cs))
		r.Check(recv == "$1.BlockAndCertificate", "R3/Check-receiver", c.p.Pos(cs.Pos()), "receiver = "+recv, "Check is invoked on "+recv+", not on the message's certificate")
	}
	for _, cs := range callsIn(handlePeerBlock, true, qcCheckProposalBasic) {
		want := []string{"$0.FSM.Height()", "$0.Config.NetworkID", "$0.Config.ChainId"}
		for i, w := range want {
			got := c.p.path(argOf(cs, i))
			r.Check(got == w, fmt.Sprintf("R3/CheckProposalBasic-arg%d", i), c.p.Pos(cs.Pos()), "arg = "+got, fmt.Sprintf("argument %d of CheckProposalBasic is %s, expected %s", i, got, w))
		}
	}
	// what is committed is what was checked: CommitCertificate(qc, block, ...) receives the checked qc and the block CheckProposalBasic returned
	for _, cs := range callsIn(handlePeerBlock, true, commitCert) {
		qc := c.p.path(argOf(cs, 0))
		blk := c.p.path(argOf(cs, 1))
		r.Check(qc == "$1.BlockAndCertificate", "R3/commit-qc", c.p.Pos(cs.Pos()), "qc = "+qc, "CommitCertificate receives "+qc+", not the certificate that was checked")
		r.Check(strings.HasSuffix(blk, ".CheckProposalBasic($0.FSM.Height(),$0.Config.NetworkID,$0.Config.ChainId)#0") && strings.HasPrefix(blk, "$1.BlockAndCertificate."), "R3/commit-block", c.p.Pos(cs.Pos()), "block = "+blk, "CommitCertificate receives block "+blk+", not the one returned by CheckProposalBasic of the checked certificate")
	}

	// ------------------------------------------------------------------ R4
	r.Rule("R4", "MPT", "inside the checks: Check succeeds only after CheckBasic ok, Header.Check ok and as the result of Signature.Check; CheckBasic binds Results/Block to their hashes; CheckProposalBasic binds block, heights and hash; AggregateSignature.Check requires SetBitmap ok, VerifyBytes true and the +2/3 comparison", 4)
	viewCheck := c.fn("lib.(*View).Check")
	blockCheck := c.fn("lib.(*Block).Check")
	blockHash := c.fn("lib.(*Block).Hash")
	bytesEqual := lookupStd(c.p, "bytes", "Equal")
	r.Anchor(bytesEqual != nil, "bytes.Equal")
	if viewCheck != nil {
		c.mpt(mptSpec{
			rule: "R4", fn: qcCheck,
			events: evSet{"CheckBasic": {qcCheckBasic}, "Header.Check": {viewCheck}, "Signature.Check": {aggCheck}},
			target: tgtOkReturn("ok-return"),
			reqs: func(string) []string {
				return []string{"CheckBasic.ok", "Header.Check.ok", "seen:Signature.Check"}
			},
			minTarget: 1,
		})
		// the ok return must be the tail call of Signature.Check (its results are returned unchanged)
		okTail := false
		instrs(qcCheck, func(in ssa.Instruction) {
			if ret, ok := in.(*ssa.Return); ok && len(ret.Results) == 2 {
				p0, p1 := c.p.path(ret.Results[0]), c.p.path(ret.Results[1])
				if strings.Contains(p0, ".Signature.Check(") && strings.HasSuffix(p0, "#0") && strings.Contains(p1, ".Signature.Check(") && strings.HasSuffix(p1, "#1") {
					okTail = true
				}
			}
		})
		r.Check(okTail, "R4/QuorumCertificate.Check/tail", c.p.Pos(qcCheck.Pos()), "Check returns Signature.Check's (isPartialQC, err) unchanged", "QuorumCertificate.Check no longer returns the result of AggregateSignature.Check unchanged (isPartialQC could be dropped)")
	}
	if blockCheck != nil && blockHash != nil && bytesEqual != nil {
		c.mpt(mptSpec{
			rule: "R4", fn: qcCheckProposalBasic,
			events: evSet{"block.Check": {blockCheck}, "block.Hash": {blockHash}, "bytes.Equal": {bytesEqual}},
			atom: func(v ssa.Value) (string, bool) {
				// comparisons on heights: name them by their normalised operands
				if b, ok := v.(*ssa.BinOp); ok {
					px, py := c.p.path(b.X), c.p.path(b.Y)
					hdrH, blkH := "$0.Header.Height", ".BlockHeader.Height"
					switch {
					case (b.Op == token.NEQ || b.Op == token.EQL) && ((px == hdrH && strings.HasSuffix(py, blkH)) || (py == hdrH && strings.HasSuffix(px, blkH))):
						return "certHeight==blockHeight", b.Op == token.NEQ
					case isOrdering(b.Op):
						isLocal := func(x ssa.Value) bool { return c.p.path(x) == "$1" }
						isBlk := func(y ssa.Value) bool { return strings.HasSuffix(c.p.path(y), blkH) }
						if m, neg := ordMatchV(b, token.GTR, isLocal, isBlk); m {
							return "local>block", neg
						}
						if m, neg := ordMatchV(b, token.LSS, isLocal, isBlk); m {
							return "local<block", neg
						}
					case (b.Op == token.EQL || b.Op == token.NEQ) && ((px == "$0.Results" && py == "nil") || (py == "$0.Results" && px == "nil")):
						return "results==nil", b.Op == token.NEQ
					case (b.Op == token.EQL || b.Op == token.NEQ) && ((px == "$0.Block" && py == "nil") || (py == "$0.Block" && px == "nil")):
						return "block==nil", b.Op == token.NEQ
					}
				}
				return "", false
			},
			target: tgtOkReturn("ok-return"),
			reqs: func(string) []string {
				return []string{"block.Check.ok", "@certHeight==blockHeight=T", "@local>block=F", "@local<block=F", "block.Hash.ok", "bytes.Equal#0=T", "@results==nil=F", "@block==nil=F"}
			},
			minTarget: 1,
		})
		// the compared operands are the certificate's BlockHash and the recomputed hash
		for _, cs := range callsIn(qcCheckProposalBasic, false, bytesEqual) {
			a, b := c.p.path(cs.Common().Args[0]), c.p.path(cs.Common().Args[1])
			ok := (a == "$0.BlockHash" && strings.HasSuffix(b, ".Hash()#0")) || (b == "$0.BlockHash" && strings.HasSuffix(a, ".Hash()#0"))
			r.Check(ok, "R4/CheckProposalBasic/hash-operands", c.p.Pos(cs.Pos()), "bytes.Equal("+a+", "+b+")", "the hash comparison in CheckProposalBasic compares "+a+" with "+b+", not the certificate's BlockHash with block.Hash()")
		}
	}
	// AggregateSignature.Check
	aggCheckBasic := c.fn("lib.(*AggregateSignature).CheckBasic")
	getSigners := c.fn("lib.(*AggregateSignature).GetSigners")
	setBitmap := c.p.IfaceMethod("lib/crypto", "MultiPublicKeyI", "SetBitmap")
	verifyBytes := c.p.IfaceMethod("lib/crypto", "MultiPublicKeyI", "VerifyBytes")
	r.Anchor(setBitmap != nil, "crypto.MultiPublicKeyI.SetBitmap")
	r.Anchor(verifyBytes != nil, "crypto.MultiPublicKeyI.VerifyBytes")
	min23 := c.field("lib", "ValidatorSet", "MinimumMaj23")
	if aggCheckBasic != nil && getSigners != nil && setBitmap != nil && verifyBytes != nil && min23 != nil {
		c.mpt(mptSpec{
			rule: "R4", fn: aggCheck,
			events: evSet{"CheckBasic": {aggCheckBasic}, "GetSigners": {getSigners}},
			extraEv: func(in ssa.Instruction) string {
				if cc := callCommon(in); cc != nil && cc.IsInvoke() {
					switch cc.Method {
					case setBitmap:
						return "SetBitmap"
					case verifyBytes:
						return "VerifyBytes"
					}
				}
				return ""
			},
			atom: ordAtom("signed<min23", token.LSS,
				func(x ssa.Value) bool { return strings.Contains(c.p.path(x), "GetSigners(") },
				func(y ssa.Value) bool { f, _ := loadedField(y); return f == min23 }),
			// target: returns that may report (isPartial=false, err=nil), i.e. "full +2/3 certificate"
			target: func(in ssa.Instruction, st *PState, e *pathEngine) string {
				ret, ok := in.(*ssa.Return)
				if !ok || in.Parent() != e.r.Fn || len(ret.Results) != 2 {
					return ""
				}
				if e.RetNil(ret, 1, st) == False {
					return ""
				}
				if e.known(st, ret.Results[0]) == True {
					return "partial-return"
				}
				return "full-return"
			},
			reqs: func(l string) []string {
				base := []string{"CheckBasic.ok", "SetBitmap#0=T", "VerifyBytes#0=T", "GetSigners.ok"}
				if l == "full-return" {
					return append(base, "@signed<min23=F")
				}
				return base
			},
			minTarget: 2,
		})
		// what is verified is the sign bytes of the certificate against the aggregate signature
		for _, f := range []*ssa.Function{aggCheck} {
			instrs(f, func(in ssa.Instruction) {
				if cc := callCommon(in); cc != nil && cc.IsInvoke() && cc.Method == verifyBytes {
					a0, a1 := c.p.path(cc.Args[0]), c.p.path(cc.Args[1])
					r.Check(a0 == "$1.SignBytes()" && a1 == "$0.Signature", "R4/AggregateSignature.Check/verify-operands", c.p.Pos(in.Pos()), "VerifyBytes("+a0+", "+a1+")", "VerifyBytes is given ("+a0+", "+a1+"), expected (sb.SignBytes(), x.Signature)")
					rc := c.p.path(cc.Value)
					r.Check(has(rc, "$2.MultiKey.Copy()"), "R4/AggregateSignature.Check/verify-key", c.p.Pos(in.Pos()), "key = "+rc, "the verifying key is "+rc+", not a copy of the validator set's MultiKey")
				}
			})
		}
	}

	// ------------------------------------------------------------------ R5
	r.Rule("R5", "COVER", "QuorumCertificate.SignBytes covers every field except Results, Block (bound by their hashes, R4) and Signature; the election form covers Header and ProposerKey (the others are enforced empty by CheckBasic)", 7)
	qcT := c.p.Named("lib", "QuorumCertificate")
	signBytes := c.fn("lib.(*QuorumCertificate).SignBytes")
	if qcT != nil && signBytes != nil {
		nilled := fieldsStoredNil(signBytes, qcT)
		restored := fieldsStoredNonNil(signBytes, qcT)
		allowed := map[string]string{"Results": "bound by ResultsHash (CheckBasic compares)", "Block": "bound by BlockHash (CheckBasic/CheckProposalBasic compare)", "Signature": "is the signature itself"}
		have := map[string]bool{}
		for _, f := range protoFields(qcT) {
			if nilled[f] == 0 {
				have[f] = true
			}
		}
		c.coverCheck("R5", "SignBytes[non-election]", qcT, protoFields(qcT), have, allowed, c.p.Pos(signBytes.Pos()))
		for f := range nilled {
			r.Check(restored[f] > 0, "R5/SignBytes/restore/"+f, c.p.Pos(signBytes.Pos()), "removed field is restored after marshalling", "field "+f+" is set to nil for signing and never restored")
		}
		// election form
		lits := c.p.compositeLits(signBytes, qcT)
		if len(lits) != 1 {
			r.Unk("R5/SignBytes[election]/literal", c.p.Pos(signBytes.Pos()), fmt.Sprintf("expected exactly one QuorumCertificate literal (the election form), found %d", len(lits)))
		} else {
			c.coverCheck("R5", "SignBytes[election]", qcT, protoFields(qcT), keysOf(lits[0]), map[string]string{
				"Block": "CheckBasic enforces empty for ELECTION_VOTE", "BlockHash": "CheckBasic enforces empty for ELECTION_VOTE",
				"Results": "CheckBasic enforces empty for ELECTION_VOTE", "ResultsHash": "CheckBasic enforces empty for ELECTION_VOTE", "Signature": "is the signature itself"},
				c.p.Pos(signBytes.Pos()))
		}
	}

	// ------------------------------------------------------------------ R6
	r.Rule("R6", "MPT", "CheckAndSetLastCertificate indexes the last certificate only after EqualPayloads is true and, unless syncing, Check ok with isPartialQC=false and enforceHeights=true", 1)
	casl := c.fn("controller.(*Controller).CheckAndSetLastCertificate")
	equalPayloads := c.fn("lib.(*QuorumCertificate).EqualPayloads")
	indexQC := c.fn("store.(*Store).IndexQC")
	if casl != nil && equalPayloads != nil && indexQC != nil {
		c.mpt(mptSpec{
			rule: "R6", fn: casl,
			events: evSet{"EqualPayloads": {equalPayloads}, "Check": {qcCheck}},
			atom: func(v ssa.Value) (string, bool) {
				if strings.HasSuffix(c.p.path(v), ".Syncing().Load()") {
					return "syncing", false
				}
				return "", false
			},
			target: tgtCall("IndexQC", indexQC),
			reqs: func(string) []string {
				return []string{"EqualPayloads#0=T", "Check.ok|@syncing=T", "Check#0=F|@syncing=T"}
			},
			minTarget: 1,
		})
		for _, cs := range callsIn(casl, false, qcCheck) {
			b, ok := constBoolArg(cs, 3)
			r.Check(ok && b, "R6/enforceHeights", c.p.Pos(cs.Pos()), "enforceHeights=true", "the last certificate is checked without enforceHeights=true: a certificate for another height would pass")
			view := argOf(cs, 2)
			for _, fc := range [][2]string{{"NetworkId", "$0.Config.NetworkID"}, {"ChainId", "$0.Config.ChainId"}} {
				fv := c.p.Field("lib", "View", fc[0])
				val := litField(view, fv)
				got := "<not set>"
				if val != nil {
					got = c.p.path(val)
				}
				r.Check(got == fc[1], "R6/view/"+fc[0], c.p.Pos(cs.Pos()), "View."+fc[0]+" = "+got, "View."+fc[0]+" for the last-certificate check is "+got+", expected "+fc[1])
			}
		}
		// what is indexed is the certificate that was compared
		for _, cs := range callsIn(casl, false, indexQC) {
			got := c.p.path(argOf(cs, 0))
			r.Check(got == "$1.LastQuorumCertificate", "R6/indexed-value", c.p.Pos(cs.Pos()), "IndexQC("+got+")", "IndexQC receives "+got+", not the candidate's LastQuorumCertificate that was checked")
		}
	}

	// ------------------------------------------------------------------ R7
	r.Rule("R7", "MPT+WHO", "aggregate-signature verification is unconditional: BLS12381MultiPublicKey.VerifyBytes can return true only after scheme.Verify succeeded for the key aggregated from its own signer mask; the process-wide signature cache (whose keys do not include a signer bitmap) is touched only by the single-key helpers", 4)
	multiVerify := c.fn("lib/crypto.(*BLS12381MultiPublicKey).VerifyBytes")
	if multiVerify != nil {
		c.mpt(mptSpec{
			rule: "R7", fn: multiVerify,
			events: evSet{},
			extraEv: func(in ssa.Instruction) string {
				if cc := callCommon(in); cc != nil {
					if sc := cc.StaticCallee(); sc != nil && sc.Name() == "Verify" && len(cc.Args) >= 2 && strings.Contains(c.p.path(cc.Args[1]), "AggregatePublicKeys($0.mask)") {
						return "scheme.Verify"
					}
					if cc.IsInvoke() && cc.Method.Name() == "Verify" && len(cc.Args) >= 1 && strings.Contains(c.p.path(cc.Args[0]), "AggregatePublicKeys($0.mask)") {
						return "scheme.Verify"
					}
				}
				return ""
			},
			target:    tgtReturnVal("true-return", 0, true),
			reqs:      func(string) []string { return []string{"scheme.Verify#0=T"} },
			minTarget: 1,
		})
	}
	var sigCache types.Object
	if cp := c.p.pkg("lib/crypto"); cp != nil {
		sigCache = cp.Types.Scope().Lookup("SignatureCache")
	}
	if r.Anchor(sigCache != nil, "crypto.SignatureCache") {
		allowed := map[string]string{
			"lib/crypto.CheckCache":                 "single-key cache helper: key = (public key bytes, message, signature)",
			"(*lib/crypto.BatchVerifier).verifyAll": "batch verifier: key = BatchTuple.Key() of a single public key",
			"lib/crypto.init":                       "creation of the cache",
		}
		n := 0
		for _, f := range c.p.Funcs {
			if isTestFile(c.p, f.Pos()) {
				continue
			}
			instrs(f, func(in ssa.Instruction) {
				for _, op := range in.Operands(nil) {
					if g, ok := (*op).(*ssa.Global); ok && g.Object() == sigCache {
						n++
						enc := fnName(enclosing(f))
						// code in a helper that did not exist on the reference tree belongs to the helper's callers
						allIn, reason := true, ""
						for _, an := range c.p.attribNames(f) {
							if why, ok := allowed[an]; ok {
								reason = why
							} else {
								allIn = false
							}
						}
						if allIn && reason != "" {
							r.OK("R7/SignatureCache-access/"+enc, c.p.Pos(in.Pos()), reason)
						} else {
							r.Bad("R7/SignatureCache-access/"+enc, c.p.Pos(in.Pos()), "the process-wide signature cache is accessed in "+enc+", outside the single-key helpers {CheckCache, BatchVerifier.verifyAll}: a cached verdict there is not tied to the signer set that is being credited")
						}
					}
				}
			})
		}
		r.Analysed["signature_cache_accesses"] = n
	}

	// ------------------------------------------------------------------ R8
	r.Rule("R8", "FLOW", "the committee a certificate is checked against is the root chain's validator set for exactly the asked (root chain, root height, chain): Controller.LoadCommittee returns RCManager.GetValidatorSet(rootChainId, this chain, rootHeight) with its own parameters, and a memoised result is looked up under every parameter the computation depends on", 2)
	loadCommittee := c.fn("controller.(*Controller).LoadCommittee")
	getVS := c.p.IfaceMethod("lib", "RCManagerI", "GetValidatorSet")
	if loadCommittee != nil && r.Anchor(getVS != nil, "lib.RCManagerI.GetValidatorSet") {
		// the computing call and the parameters it depends on
		var deps []string
		nCalls := 0
		instrs(loadCommittee, func(in ssa.Instruction) {
			if cc := callCommon(in); cc != nil && cc.IsInvoke() && cc.Method == getVS {
				nCalls++
				var ps []string
				for _, a := range cc.Args {
					ps = append(ps, c.p.path(a))
				}
				want := []string{"$1", "$0.Config.ChainId", "$2"}
				r.Check(strings.Join(ps, ",") == strings.Join(want, ","), "R8/LoadCommittee/source-args", c.p.Pos(in.Pos()), "GetValidatorSet("+strings.Join(ps, ", ")+")",
					"LoadCommittee asks the root chain manager for GetValidatorSet("+strings.Join(ps, ", ")+"), expected (rootChainId, this chain's id, rootHeight): a certificate would be checked against another committee")
				for i := range loadCommittee.Params {
					tok := fmt.Sprintf("$%d", i)
					for _, pth := range ps {
						if i > 0 && strings.Contains(pth, tok) {
							deps = append(deps, tok)
						}
					}
				}
			}
		})
		r.Check(nCalls >= 1, "R8/LoadCommittee/source", c.p.Pos(loadCommittee.Pos()), "LoadCommittee obtains the set from the root chain manager", "LoadCommittee no longer calls RCManager.GetValidatorSet (rule needs re-reading)")
		// every returned set is that call's result, or a stored copy found under all of deps
		for _, b := range loadCommittee.Blocks {
			ret, ok := b.Instrs[len(b.Instrs)-1].(*ssa.Return)
			if !ok || len(ret.Results) == 0 {
				continue
			}
			pth := c.p.path(ret.Results[0])
			for _, alt := range splitPhi(pth) {
				if strings.Contains(alt, ".GetValidatorSet(") || alt == "nil" || strings.HasPrefix(alt, "struct{}") || strings.HasPrefix(alt, "new(ValidatorSet)") {
					continue
				}
				missing := ""
				for _, d := range deps {
					if !strings.Contains(alt, "["+d+"]") && !strings.Contains(alt, d+",") && !strings.Contains(alt, d+")") {
						missing = d
					}
				}
				r.Check(missing == "", "R8/LoadCommittee/returned-set", c.p.Pos(ret.Pos()), "returns "+alt,
					"LoadCommittee can return "+alt+", a stored validator set that is not looked up under parameter "+missing+" of the lookup it memoises: after that parameter changes (a root-chain switch) certificates are checked against a committee that is no longer in force")
			}
		}
	}

	// ------------------------------------------------------------------ R9
	c.ruleSignedPowerMemberwise("R9")
}

// ruleSignedPowerMemberwise (C02.R9): the power a certificate is credited with is the sum of the voting power of exactly
// the members whose signer bit was tested — the same per-index test the key aggregation uses. Decided structurally on
// AggregateSignature.getSigners: every value its power result can take is 0 or a sum whose terms are `member.VotingPower`
// added under a SignerEnabledAt test. A shortcut that returns the set's total (or anything computed from the raw bitmap
// bytes, whose padding bits the signature check ignores) credits power nobody signed for.
func (c *ctx) ruleSignedPowerMemberwise(R string) {
	r := c.r
	r.Rule(R, "FLOW", "signed power is counted member by member: every value the power result of AggregateSignature.getSigners can take is 0 or an accumulation of VotingPower terms, each added in a block dominated by the SignerEnabledAt test of that member's index", 2)
	gs := c.fn("lib.(*AggregateSignature).getSigners")
	if gs == nil {
		return
	}
	// index of the power result
	pIdx := -1
	for i := 0; i < gs.Signature.Results().Len(); i++ {
		if b, ok := gs.Signature.Results().At(i).Type().Underlying().(*types.Basic); ok && b.Kind() == types.Uint64 {
			pIdx = i
		}
	}
	if !r.Anchor(pIdx >= 0, "getSigners' uint64 power result") {
		return
	}
	dominatedByTest := func(b *ssa.BasicBlock) bool {
		for _, tb := range b.Parent().Blocks {
			for _, in := range tb.Instrs {
				if cc := callCommon(in); cc != nil && cc.IsInvoke() && cc.Method.Name() == "SignerEnabledAt" && tb.Dominates(b) {
					return true
				}
			}
		}
		return false
	}
	// a helper this change introduced is read through: what it returns counts
	through := func(call *ssa.Call, idx int, visit func(ssa.Value, int), d int) bool {
		sc := call.Common().StaticCallee()
		if sc == nil || len(sc.Blocks) == 0 || !(c.p.transparentSite(sc) != nil || c.p.isNewNamed(sc)) {
			return false
		}
		for _, b := range sc.Blocks {
			if ret, ok := b.Instrs[len(b.Instrs)-1].(*ssa.Return); ok && idx < len(ret.Results) {
				visit(ret.Results[idx], d+1)
			}
		}
		return true
	}
	nTerms, nRet := 0, 0
	seen := map[ssa.Value]bool{}
	var bad []string
	var visit func(v ssa.Value, d int)
	visit = func(v ssa.Value, d int) {
		if seen[v] || d > 20 {
			return
		}
		seen[v] = true
		switch x := v.(type) {
		case *ssa.Const:
			if x.Value != nil && x.Uint64() != 0 {
				bad = append(bad, c.p.path(x))
			}
		case *ssa.Phi:
			for _, e := range x.Edges {
				visit(e, d+1)
			}
		case *ssa.UnOp:
			// a named result kept in a cell (defers / closures): what is stored into it counts
			if a, ok := x.X.(*ssa.Alloc); ok && x.Op == token.MUL && a.Referrers() != nil {
				for _, ref := range *a.Referrers() {
					if st, ok := ref.(*ssa.Store); ok && st.Addr == a {
						visit(st.Val, d+1)
					}
				}
				return
			}
			bad = append(bad, c.p.path(x))
		case *ssa.Extract:
			if call, ok := x.Tuple.(*ssa.Call); ok && through(call, x.Index, visit, d) {
				return
			}
			bad = append(bad, c.p.path(x))
		case *ssa.Call:
			if through(x, 0, visit, d) {
				return
			}
			bad = append(bad, c.p.path(x))
		case *ssa.Parameter:
			// the accumulator handed to a helper this change introduced: the argument at its call site
			if site := c.p.transparentSite(x.Parent()); site != nil && !site.Common().IsInvoke() {
				for i, pa := range x.Parent().Params {
					if pa == x && i < len(site.Common().Args) {
						visit(site.Common().Args[i], d+1)
						return
					}
				}
			}
			bad = append(bad, c.p.path(x))
		case *ssa.BinOp:
			if x.Op == token.ADD {
				term, acc := x.Y, x.X
				if !strings.HasSuffix(c.p.path(term), ".VotingPower") {
					term, acc = x.X, x.Y
				}
				if strings.HasSuffix(c.p.path(term), ".VotingPower") && dominatedByTest(x.Block()) {
					nTerms++
					visit(acc, d+1)
					return
				}
			}
			bad = append(bad, c.p.path(x))
		default:
			bad = append(bad, c.p.path(v))
		}
	}
	for _, b := range gs.Blocks {
		if ret, ok := b.Instrs[len(b.Instrs)-1].(*ssa.Return); ok && pIdx < len(ret.Results) {
			nRet++
			visit(ret.Results[pIdx], 0)
		}
	}
	r.Check(len(bad) == 0, R+"/getSigners/power-sources", c.p.Pos(gs.Pos()), fmt.Sprintf("%d return(s); power = sum of %d VotingPower term(s) under a SignerEnabledAt test", nRet, nTerms), "getSigners can credit the power "+strings.Join(bad, ", ")+", which is not a sum of the voting power of members whose signer bit was tested: bits the signature check ignores (padding, indexes beyond the committee) or a whole-set shortcut would count as signed power")
	r.Check(nTerms >= 1, R+"/getSigners/accumulates", c.p.Pos(gs.Pos()), "power is accumulated from members", "getSigners no longer accumulates VotingPower terms under SignerEnabledAt")
	r.Analysed["signed_power_terms"] = nTerms
}

// splitPhi splits a rendered phi(a|b|c) path into its alternatives (top level only).
func splitPhi(p string) []string {
	if !strings.HasPrefix(p, "phi(") || !strings.HasSuffix(p, ")") {
		return []string{p}
	}
	body := p[4 : len(p)-1]
	var out []string
	depth, start := 0, 0
	for i, ch := range body {
		switch ch {
		case '(', '[':
			depth++
		case ')', ']':
			depth--
		case '|':
			if depth == 0 {
				out = append(out, body[start:i])
				start = i + 1
			}
		}
	}
	return append(out, body[start:])
}

// lookupStd resolves a function of a non-canopy package that is part of the loaded program.
func lookupStd(p *Prog, pkgPath, name string) *ssa.Function {
	for _, pk := range p.SSA.AllPackages() {
		if pk.Pkg.Path() == pkgPath {
			return pk.Func(name)
		}
	}
	return nil
}
