package main

import (
	"fmt"
	"go/token"
	"go/types"
	"os"
	"sort"
	"strings"

	"golang.org/x/tools/go/ssa"
)

func init() {
	register("C03", c03)
	register("C08", c08)
}

var consensusRoots = []string{"fsm.(*StateMachine).ApplyBlock", "controller.(*Controller).NewCertificateResults", "store.(*Store).Root", "store.(*Store).Commit", "lib.(*BlockHeader).SetHash", "lib.(*CertificateResult).Hash"}

// ruleMapRanges (C03.R1 / C08.R1): every range over a map in the reachable set is order-insensitive.
func (d *detSet) ruleMapRanges(R string, only func(f *ssa.Function) bool) int {
	c, r := d.c, d.c.r
	// the two loops whose order-insensitivity lies in their single consumer, not in the loop itself
	table := map[string]string{
		"(*store.Store).collectLssDeleteKeys":  "builds an unsorted key list whose only consumer (purgeLssTombstones) issues one independent batch delete per distinct key",
		"(*store.Store).recordStateChangeKeys": "builds an unsorted key list whose only consumer (Indexer.indexStateChangeKeys) issues one independent keyed write per distinct key",
	}
	consumers := map[string]string{
		"(*store.Store).collectLssDeleteKeys":  "(*store.Store).purgeLssTombstones",
		"(*store.Store).recordStateChangeKeys": "(*store.Indexer).indexStateChangeKeys",
	}
	// callees a map-order loop may hand the iteration variable to (keyed, idempotent sinks), frozen from today's tree
	keyedSinks := map[string]bool{"(*github.com/allegro/bigcache/v3.BigCache).Set": true, "bytes.Clone": true}
	for _, spec := range []string{"store.(*Txn).flush", "store.(*Txn).write", "store.(*Txn).addToSorted", "store.(*SMT).valueOpToSMTNode", "store.(*SMT).validateTarget", "store.(valueOp).copy"} {
		// resolved through the program (a renamed function is still found, newfn.go), then named as it is called today
		if f := c.fnQuiet(spec); f != nil {
			keyedSinks[fnName(origin(f))] = true
		}
	}
	n := 0
	for _, m := range d.mapRanges() {
		if only != nil && !only(m.fn) {
			continue
		}
		n++
		name := fnName(m.fn)
		construct := R + "/map-range/" + name
		pos := c.p.Pos(m.rng.Pos())
		// keyed calls must go to known sinks
		badCallee := ""
		if m.class != "" {
			for _, part := range strings.Split(m.why, "; ") {
				if i := strings.Index(part, "calls "); i >= 0 && strings.HasSuffix(part, " keyed by the iteration variable") {
					callee := strings.TrimSuffix(part[i+6:], " keyed by the iteration variable")
					// maps.Copy(dst, src) performs dst[k] = v for every entry of src: keyed and idempotent in any order
					if !keyedSinks[callee] && !d.keyedOnlyFn(c.fnQuietByName(callee), keyedSinks, 0) && !strings.HasPrefix(callee, "maps.Copy[") && !strings.HasPrefix(callee, "maps.Clone[") && !strings.HasPrefix(callee, "slices.Clone[") {
						badCallee = callee
					}
				}
			}
		}
		switch {
		case m.class != "" && badCallee == "":
			r.OK(construct, pos, "order-insensitive (class "+m.class+"): "+m.why)
		case m.class != "" && badCallee != "":
			r.Bad(construct, pos, "the loop over a map hands its iteration variable to "+badCallee+", which is not a known keyed idempotent sink: if that callee accumulates (hashes, appends, counts) the result depends on Go's map iteration order")
		default:
			if reason, ok := table[name]; ok {
				// the exception holds only while the slice goes to that one consumer
				used := false
				for _, cs := range c.p.callSitesOf(m.fn) {
					_ = cs
					used = true
				}
				cons := c.fnQuietByName(consumers[name])
				r.Check(used && cons != nil, construct, pos, "order reaches only an order-insensitive consumer: "+reason, "the documented consumer "+consumers[name]+" of the unsorted key list no longer exists")
			} else {
				r.Bad(construct, pos, "range over a map in consensus-reachable code whose effect depends on iteration order: "+m.why+" — nodes would compute different results for the same block")
			}
		}
	}
	return n
}

// fnQuietByName finds a canopy function by its fnName rendering.
func (c *ctx) fnQuietByName(name string) *ssa.Function {
	for _, f := range c.p.Funcs {
		if fnName(f) == name {
			return f
		}
	}
	return nil
}

// ruleForkJoin (C03.R3 / C08.R3): goroutines spawned in the reachable set are joined before their results are used.
func (d *detSet) ruleForkJoin(R string, only func(f *ssa.Function) bool) int {
	c, r := d.c, d.c.r
	maintenance := map[string]string{
		"(*store.Store).MaybeCompact": "post-commit maintenance goroutine: compaction, writes no keyed data and nothing the block result depends on",
		"(*store.Store).MaybeBackup":  "post-commit maintenance goroutine: checkpoint backup, reads only",
	}
	n := 0
	for _, f := range d.list {
		if only != nil && !only(f) {
			continue
		}
		var gos []*ssa.Go
		instrs(f, func(in ssa.Instruction) {
			if g, ok := in.(*ssa.Go); ok {
				gos = append(gos, g)
			}
		})
		if len(gos) == 0 {
			continue
		}
		n += len(gos)
		name := fnName(enclosing(f))
		if why, ok := maintenance[name]; ok {
			r.OK(R+"/go/"+name, c.p.Pos(gos[0].Pos()), why)
			continue
		}
		// join forms: WaitGroup.Wait after the last spawn, or counted receives bounded by the spawn counter
		spawnCounter := func(v ssa.Value) bool {
			for _, bo := range counterIncrements(v) {
				for _, g := range gos {
					if bo.Block().Dominates(g.Block()) || bo.Block() == g.Block() {
						return true
					}
				}
			}
			return false
		}
		c.mpt(mptSpec{
			rule: R, fn: f, events: evSet{},
			extraEv: func(in ssa.Instruction) string {
				switch x := in.(type) {
				case *ssa.Go:
					return "spawn"
				case *ssa.UnOp:
					if x.Op == token.ARROW {
						return "recv"
					}
				case ssa.CallInstruction:
					n := calleeName(x.Common())
					if n == "(*sync.WaitGroup).Wait" || strings.HasSuffix(n, "errgroup.Group).Wait") {
						return "Wait"
					}
				}
				return ""
			},
			resets: map[string][]string{"spawn": {"Wait"}},
			atom:   ordAtom("collected<spawned", token.LSS, func(x ssa.Value) bool { return !spawnCounter(x) }, spawnCounter),
			target: func(in ssa.Instruction, st *PState, e *pathEngine) string {
				if _, ok := in.(*ssa.Return); ok && in.Parent() == e.r.Fn {
					return "return"
				}
				return ""
			},
			reqs: func(string) []string {
				return []string{"!seen:spawn|seen:Wait|@collected<spawned=F"}
			},
			minTarget: 1,
		})
		// every spawned worker signals completion exactly where the parent waits: Done (deferred) or a send on every exit
		for _, g := range gos {
			var fn *ssa.Function
			if mc, ok := g.Call.Value.(*ssa.MakeClosure); ok {
				fn, _ = mc.Fn.(*ssa.Function)
			} else if sf := g.Call.StaticCallee(); sf != nil {
				fn = sf
			}
			if fn == nil || len(fn.Blocks) == 0 {
				r.Unk(R+"/go/"+name+"/worker", c.p.Pos(g.Pos()), "cannot resolve the goroutine's body")
				continue
			}
			c.mpt(mptSpec{
				rule: R, fn: fn, events: evSet{},
				extraEv: func(in ssa.Instruction) string {
					switch x := in.(type) {
					case *ssa.Send:
						return "signal"
					case ssa.CallInstruction:
						if calleeName(x.Common()) == "(*sync.WaitGroup).Done" {
							return "signal"
						}
					}
					return ""
				},
				target: func(in ssa.Instruction, st *PState, e *pathEngine) string {
					if _, ok := in.(*ssa.Return); ok && in.Parent() == e.r.Fn {
						return "worker-exit"
					}
					return ""
				},
				reqs:      func(string) []string { return []string{"seen:signal|deferred:signal"} },
				minTarget: 1,
			})
		}
	}
	return n
}

// C03 — Deterministic replicated execution (structural).
func c03(c *ctx) {
	r := c.r
	d := newDetSet(c, consensusRoots...)
	if os.Getenv("DET_EXPLORE") != "" {
		detExplore(c, d)
	}
	r.Explain = "Determinism lint over the canopy functions reachable (VTA call graph, cut at metrics/logging) from ApplyBlock, NewCertificateResults, Store.Root, Store.Commit, BlockHeader.SetHash and CertificateResult.Hash: (R1) every range over a map is order-insensitive (keyed writes, commutative accumulation, or collect-then-sort) — the rest is a reasoned table; " +
		"(R2) wall-clock values reach only observability sinks (taint over SSA def-use, branches on clock values may guard only sinks); other non-deterministic sources are a reasoned table; per-process hashes are used only as map keys; (R3) goroutines are joined before their results are used; (R4) speculative state is reset at every proposal/commit entry and exit; (R5) caches are cleared completely; (R6) process-wide mutable state touched by consensus code is a frozen, reasoned table."
	r.NotCovered = []string{"that two different code paths (proposer vs replica) compute equal bytes (C11)", "floating point / architecture differences (none found: no float in the set is checked)", "contents of the process-wide caches (argued: keyed by height / by (key,msg,sig), they only short-cut equal computations)", "plugin processes"}
	r.Trusted = []string{"Go map, sort and protobuf deterministic-marshal semantics", "pebble iteration order"}
	r.Analysed["consensus_reachable_functions"] = len(d.list)

	// ------------------------------------------------------------------ R1
	r.Rule("R1", "DET", "every range over a map in the consensus-reachable set is order-insensitive", 12)
	r.Analysed["map_ranges"] = d.ruleMapRanges("R1", nil)

	// ------------------------------------------------------------------ R2
	r.Rule("R2", "DET", "non-deterministic sources: clock values (time.Now/Since) flow only into metrics/log sinks; file, environment and random sources in the set are a reasoned table; lib.MemHash results are used only as in-memory map keys", 60)
	otherSources := map[string]string{
		"(*fsm.StateMachine).ReadGenesisFromFile/os.ReadFile": "genesis file: height 0 only, identical on all nodes by definition of the chain",
		"lib.NewJSONFromFile/os.ReadFile":                     "governance approve-list (proposals.json): the property's own premise 'same governance-vote configuration'",
		"(*lib.Plugin).sendToPluginAsync/math/rand.Uint64":    "plugin request id: correlates request and response, never stored or hashed",
	}
	clockTable := map[string]string{
		"lib.NewFailedTx": "timestamp of a failed transaction kept in the mempool's failed-tx cache; FailedTx is never hashed, stored in state or part of a header",
	}
	nClock, nOther := 0, 0
	for _, f := range d.list {
		instrs(f, func(in ssa.Instruction) {
			cc := callCommon(in)
			if cc == nil {
				return
			}
			s := nondetSource(cc)
			if s == "" {
				return
			}
			name := fnName(enclosing(f))
			if s == "time.Now" || s == "time.Since" || s == "time.Until" {
				nClock++
				fds := d.clockTaint(f, in.(ssa.Value))
				if len(fds) == 0 {
					r.OK("R2/clock/"+name, c.p.Pos(in.Pos()), s+" flows only into observability sinks")
					return
				}
				if why, ok := clockTable[name]; ok {
					r.OK("R2/clock/"+name, c.p.Pos(in.Pos()), "table: "+why)
					return
				}
				for _, fd := range fds {
					r.Bad("R2/clock/"+name, fd.pos, s+" in consensus-reachable code: "+fd.what+" — the value differs between nodes and runs")
				}
				return
			}
			nOther++
			if why, ok := otherSources[name+"/"+s]; ok {
				r.OK("R2/source/"+name+"/"+s, c.p.Pos(in.Pos()), "table: "+why)
			} else {
				r.Bad("R2/source/"+name+"/"+s, c.p.Pos(in.Pos()), s+" is called in consensus-reachable code ("+fnName(f)+"): its result differs between nodes/runs and must not influence state, header or certificate results")
			}
		})
	}
	r.Analysed["clock_sources"] = nClock
	r.Analysed["other_nondeterministic_sources"] = nOther
	// MemHash
	if memHash := c.fn("lib.MemHash"); memHash != nil {
		nm := 0
		for _, f := range d.list {
			for _, cs := range callsIn(f, false, memHash) {
				nm++
				v, ok := cs.(ssa.Value)
				if !ok {
					continue
				}
				bad := memHashEscapes(c, v, 0)
				r.Check(bad == "", "R2/MemHash/"+fnName(f), c.p.Pos(cs.Pos()), "per-process hash used only as an in-memory map key", "the per-process hash lib.MemHash(...) "+bad+": it differs between processes and must never reach stored or hashed data")
			}
		}
		r.Analysed["memhash_sites"] = nm
	}

	// ------------------------------------------------------------------ R3
	r.Rule("R3", "DET", "fork/join: every goroutine spawned in the set is joined (WaitGroup.Wait or counted receives bounded by the spawn counter) on every path to the spawner's return, and every worker signals completion on every exit; maintenance goroutines are a reasoned table", 4)
	r.Analysed["go_statements"] = d.ruleForkJoin("R3", nil)

	// ------------------------------------------------------------------ R4 / R5
	r.Rule("R4", "PAIR", "speculative state is reset at every proposal / validation / commit entry and exit (shared with C07.R4)", 6)
	c.ruleSpeculativeReset("R4")
	r.Rule("R5", "COVER", "caches are cleared completely (shared with C07.R3); StateMachine.Copy builds fresh account/pool caches, slash tracker and events", 8)
	c.ruleCachesCleared("R5")
	if cp := c.fn("fsm.(*StateMachine).Copy"); cp != nil {
		smT := c.p.Named("fsm", "StateMachine")
		cacheT := c.p.Named("fsm", "cache")
		if smT != nil && cacheT != nil {
			for _, l := range c.p.compositeLits(cp, smT) {
				for _, fld := range []string{"slashTracker", "events", "cache", "store"} {
					e, ok := l[fld]
					fresh := ok && !strings.HasPrefix(types.ExprString(e), "s.")
					r.Check(fresh, "R5/Copy/fresh/"+fld, c.p.Pos(cp.Pos()), "copy gets its own "+fld, "StateMachine.Copy shares "+fld+" with the original: speculative execution on the copy would leak into the original")
				}
			}
			for _, l := range c.p.compositeLits(cp, cacheT) {
				for _, fld := range []string{"accounts", "pools"} {
					e, ok := l[fld]
					fresh := ok && strings.HasPrefix(types.ExprString(e), "make(")
					r.Check(fresh, "R5/Copy/fresh-cache/"+fld, c.p.Pos(cp.Pos()), "fresh map", "StateMachine.Copy does not give the copy a fresh "+fld+" cache")
				}
				for fld := range l {
					switch fld {
					case "accounts", "pools", "rootDexBatch", "sharedCache":
					default:
						r.Bad("R5/Copy/shared-cache-field/"+fld, c.p.Pos(cp.Pos()), "StateMachine.Copy copies cache field "+fld+" from the original: cached values of one view would be read in another")
					}
				}
			}
		}
	}

	// ------------------------------------------------------------------ R6
	r.Rule("R6", "DET", "process-wide mutable state: package-level variables of container type (pointers, maps, channels, interfaces, funcs, non-byte slices, structs) referenced from the set are a frozen table, each with the reason it cannot change a consensus result", 5)
	globalsTable := map[string]string{
		"store.blockCache":          "LRU of indexed block results keyed by height; filled at IndexBlock, purged on rollback; readers get the same content the store holds",
		"lib/crypto.SignatureCache": "verdict cache keyed by (public key, message, signature): a hit equals the verification it replaces (confined to single-key helpers, C02.R7)",
		"lib/crypto.DisableCache":   "test switch for the signature cache",
		"lib.marshaller":            "protobuf MarshalOptions{Deterministic:true}, never reassigned",
		"fsm.scaleFactor":           "constant big.Int used read-only in fixed-point arithmetic",
		"fsm.deadAddr":              "constant burn address",
		"fsm.ReservedIDs":           "constant list of reserved pool ids",
		"lib.RegisteredMessages":    "message registry, written only by package init",
		"lib.RegisteredPageables":   "page registry, written only by package init",
		"cmd/rpc.routePaths":        "HTTP route table (reached only through call-graph over-approximation of the RCManager interface)",
	}
	seen := map[string]token.Pos{}
	stores := map[string]string{}
	for _, f := range d.list {
		instrs(f, func(in ssa.Instruction) {
			for _, op := range in.Operands(nil) {
				g, ok := (*op).(*ssa.Global)
				if !ok || g.Pkg == nil || !isCanopyPath(g.Pkg.Pkg.Path()) {
					continue
				}
				if !containerLike(g.Type().(*types.Pointer).Elem()) {
					continue
				}
				k := shortQual(g.Pkg.Pkg) + "." + g.Name()
				if strings.Contains(g.Name(), "_proto_") || strings.HasPrefix(g.Name(), "file_") || strings.HasPrefix(g.Name(), "File_") {
					continue // generated protobuf descriptors
				}
				if _, dup := seen[k]; !dup {
					seen[k] = in.Pos()
				}
				if st, ok := in.(*ssa.Store); ok && st.Addr == g && f.Name() != "init" {
					stores[k] = fnName(f)
				}
			}
		})
	}
	var ks []string
	for k := range seen {
		ks = append(ks, k)
	}
	sort.Strings(ks)
	for _, k := range ks {
		if w, ok := stores[k]; ok {
			r.Bad("R6/global/"+k, c.p.Pos(seen[k]), "the package-level variable "+k+" is assigned in consensus-reachable code ("+w+"): consensus results would depend on process history")
			continue
		}
		if why, ok := globalsTable[k]; ok {
			r.OK("R6/global/"+k, c.p.Pos(seen[k]), "table: "+why)
		} else {
			r.Bad("R6/global/"+k, c.p.Pos(seen[k]), "consensus-reachable code uses the process-wide variable "+k+", which is not in the table of audited process-wide state: a cache or registry shared by every store/FSM of the process can make results depend on earlier (discarded) executions")
		}
	}
	r.Analysed["process_wide_globals"] = len(ks)

	// ------------------------------------------------------------------ R7
	c.ruleBlockCacheComplete("R7")

	// ------------------------------------------------------------------ R8
	c.ruleLastCertificatePinned("R8")
}

// ruleLastCertificatePinned (C03.R8): several valid versions of the COMMIT certificate of height h-1 exist (different
// signer bitmaps). BeginBlock of h reads "the last certificate" from the store (non-signer counters, reward percents), so
// before block h is applied the version embedded in block h must have replaced the local one — in every mode (building,
// validating, committing, syncing). Decided structurally: CheckAndSetLastCertificate cannot return nil after having
// loaded the previous certificate without IndexQC(candidate.LastQuorumCertificate) having succeeded.
func (c *ctx) ruleLastCertificatePinned(R string) {
	r := c.r
	r.Rule(R, "MPT", "the block's own last certificate is the one the state machine reads: CheckAndSetLastCertificate returns nil, after it compared the candidate's LastQuorumCertificate with the stored one, only if IndexQC(candidate.LastQuorumCertificate) succeeded — whatever the syncing flag says", 1)
	fn := c.fn("controller.(*Controller).CheckAndSetLastCertificate")
	indexQC := c.p.IfaceMethod("lib", "StoreI", "IndexQC")
	loadHashes := c.fn("fsm.(*StateMachine).LoadCertificateHashesOnly")
	if fn == nil || loadHashes == nil || !r.Anchor(indexQC != nil, "lib.StoreI.IndexQC") {
		return
	}
	c.mpt(mptSpec{rule: R, fn: fn, events: evSet{"LoadCertificateHashesOnly": {loadHashes}},
		extraEv: invokeEvent(map[*types.Func]string{indexQC: "IndexQC"}),
		target:  tgtOkReturn("ok-return"),
		reqs: func(string) []string {
			return []string{"!seen:LoadCertificateHashesOnly|IndexQC.ok"}
		}, minTarget: 1})
	n := 0
	instrs(fn, func(in ssa.Instruction) {
		if cc := callCommon(in); cc != nil && cc.IsInvoke() && cc.Method == indexQC && len(cc.Args) > 0 {
			n++
			p := c.p.path(cc.Args[0])
			r.Check(p == "$1.LastQuorumCertificate", R+"/indexed-value", c.p.Pos(in.Pos()), "IndexQC(candidate.LastQuorumCertificate)", "CheckAndSetLastCertificate indexes "+p+", not the certificate embedded in the candidate block")
		}
	})
	r.Analysed["last_certificate_index_sites"] = n
}

// ruleBlockCacheComplete (C03.R7 / C11.R9): the process-wide block cache is read by consensus code through
// GetBlockByHeight (certificate results re-scan old blocks; blocks are served to syncing peers). Every entry must therefore
// be a COMPLETE block result: the block being indexed, or what getBlock(key, transactions=true) loaded. A header-only
// entry makes every later full read of that height in the process return a block without transactions — results then
// depend on which RPC calls a node happened to serve.
func (c *ctx) ruleBlockCacheComplete(R string) {
	r := c.r
	r.Rule(R, "FLOW", "the process-wide block cache only receives complete block results: every blockCache.Add stores the block being indexed (IndexBlock's parameter) or the result of getBlock(..., transactions=true)", 2)
	indexBlock := c.fn("store.(*Indexer).IndexBlock")
	getBlock := c.fn("store.(*Indexer).getBlock")
	if indexBlock == nil || getBlock == nil {
		return
	}
	n := 0
	for _, f := range c.p.Funcs {
		if pkgShort(f) != "store" || isTestFile(c.p, f.Pos()) {
			continue
		}
		instrs(f, func(in ssa.Instruction) {
			cc := callCommon(in)
			if cc == nil || cc.IsInvoke() || len(cc.Args) < 3 {
				return
			}
			sc := cc.StaticCallee()
			if sc == nil || origin(sc).Name() != "Add" || c.p.path(cc.Args[0]) != "store.blockCache" {
				return
			}
			n++
			val := stripLift(cc.Args[2])
			ok, how := false, c.p.path(val)
			if how == "$1" && fnName(enclosing(f)) == fnName(indexBlock) {
				ok = true // the block handed to IndexBlock (the parameter, possibly spilled to a cell because closures capture it)
			}
			// getBlock(key, true), directly or through a wrapper every return of which is such a call
			var full func(v ssa.Value, depth int) bool
			full = func(v ssa.Value, depth int) bool {
				ex, isEx := stripLift(v).(*ssa.Extract)
				if !isEx || ex.Index != 0 || depth > 2 {
					return false
				}
				call, isCall := ex.Tuple.(*ssa.Call)
				if !isCall {
					return false
				}
				if callIs(call.Common(), getBlock) {
					b, isConst := constBoolArg(call, 1)
					return isConst && b
				}
				sc := call.Common().StaticCallee()
				if sc == nil || len(sc.Blocks) == 0 || pkgShort(sc) != "store" {
					return false
				}
				n := 0
				for _, blk := range sc.Blocks {
					if ret, isRet := blk.Instrs[len(blk.Instrs)-1].(*ssa.Return); isRet && len(ret.Results) > 0 {
						if isNilConst(ret.Results[0]) {
							continue // error exit
						}
						n++
						if !full(ret.Results[0], depth+1) {
							return false
						}
					}
				}
				return n > 0
			}
			if full(val, 0) {
				ok = true
			}
			// the same through a shared loader whose `transactions` flag is its own parameter: the provenance path renders the
			// call in this caller's context
			if strings.HasPrefix(how, "$0.getBlock(") && strings.HasSuffix(how, ",true)#0") {
				ok = true
			}
			r.Check(ok, R+"/blockCache.Add/"+fnName(enclosing(f)), c.p.Pos(in.Pos()), "caches a complete block result ("+how+")",
				fnName(enclosing(f))+" puts "+how+" into the process-wide block cache, which is not a complete block result (the indexed block or getBlock(..., true)): later full reads of that height — certificate results, blocks served to peers — would lose the transactions")
		})
	}
	r.Check(n >= 1, R+"/blockCache.Add/sites", c.p.Pos(indexBlock.Pos()), fmt.Sprintf("%d sites fill the block cache", n), "no blockCache.Add found (rule needs re-reading)")
}

// counterIncrements: if v is a loop counter (a phi, possibly through other phis), the `x + 1` operations that feed it.
func counterIncrements(v ssa.Value) []*ssa.BinOp {
	var out []*ssa.BinOp
	seen := map[ssa.Value]bool{}
	var walk func(x ssa.Value, depth int)
	walk = func(x ssa.Value, depth int) {
		if seen[x] || depth > 4 {
			return
		}
		seen[x] = true
		ph, ok := x.(*ssa.Phi)
		if !ok {
			return
		}
		for _, e := range ph.Edges {
			if bo, ok := e.(*ssa.BinOp); ok && bo.Op == token.ADD {
				if _, isC := bo.Y.(*ssa.Const); isC && seen[bo.X] {
					out = append(out, bo)
					continue
				}
			}
			walk(e, depth+1)
		}
	}
	walk(v, 0)
	return out
}

// containerLike: a type through which mutable shared state can be reached.
func containerLike(t types.Type) bool {
	switch u := t.Underlying().(type) {
	case *types.Pointer, *types.Map, *types.Chan, *types.Signature:
		return true
	case *types.Interface:
		return !isErrorType(t)
	case *types.Slice:
		if b, ok := u.Elem().Underlying().(*types.Basic); ok && (b.Kind() == types.Byte || b.Kind() == types.Uint8) {
			return false
		}
		return true
	case *types.Struct:
		return true
	}
	return false
}

// memHashEscapes follows the uses of a per-process hash value; "" if it is only used as a map key.
func memHashEscapes(c *ctx, v ssa.Value, depth int) string {
	if depth > 2 {
		return "is passed too deep to follow"
	}
	for _, ref := range *v.Referrers() {
		switch x := ref.(type) {
		case *ssa.Lookup:
			if x.Index != v {
				return "is looked up as a value"
			}
		case *ssa.MapUpdate:
			if x.Key != v {
				return "is stored as a map value at " + c.p.Pos(x.Pos())
			}
		case *ssa.Store:
			if fa, ok := x.Addr.(*ssa.FieldAddr); ok && fieldOfAddr(fa).Name() == "HashedKey" {
				continue // CacheItem.HashedKey: in-memory btree item
			}
			if _, isAlloc := x.Addr.(*ssa.Alloc); isAlloc {
				continue
			}
			return "is stored into " + c.p.path(x.Addr)
		case *ssa.DebugRef:
		case ssa.CallInstruction:
			cc := x.Common()
			if b, ok := cc.Value.(*ssa.Builtin); ok && b.Name() == "delete" {
				continue
			}
			callee := cc.StaticCallee()
			if callee == nil || !inCanopy(callee) {
				return "is passed to " + calleeName(cc)
			}
			for i, a := range cc.Args {
				if a == v && i < len(callee.Params) {
					if bad := memHashEscapes(c, callee.Params[i], depth+1); bad != "" {
						return "is passed to " + fnName(callee) + " where it " + bad
					}
				}
			}
		case *ssa.Phi, *ssa.MakeInterface, *ssa.Convert, *ssa.ChangeType:
			if bad := memHashEscapes(c, x.(ssa.Value), depth); bad != "" {
				return bad
			}
		case *ssa.Return:
			return "is returned from " + fnName(x.Parent())
		case *ssa.BinOp:
			// comparisons of two hashes are fine (equality of in-memory keys)
			if x.Op != token.EQL && x.Op != token.NEQ {
				return "takes part in arithmetic"
			}
		default:
			return fmt.Sprintf("is used by %T", ref)
		}
	}
	return ""
}

func detExplore(c *ctx, d *detSet) {
	fmt.Println("reachable:", len(d.list))
	for _, m := range d.mapRanges() {
		fmt.Printf("MAPRANGE %s %s class=%q %s\n", fnName(m.fn), c.p.Pos(m.rng.Pos()), m.class, m.why)
	}
}

// C08 — State root purity (structural part).
func c08(c *ctx) {
	r := c.r
	r.Explain = "Structural part of 'the root is a pure function of the state': (R1) operations are put into one canonical order (sorted by tree key) before every tree commit, whatever order the pending-write map yields them in; (R2) the 16 synthetic border nodes that isolate the parallel subtrees are removed on every exit and a failed removal is reported; (R3) the subtree workers are joined before their writes are merged, on the error path too; (R4) the node cache never outlives a block: the tree object is created in Root() and dropped by Discard/Reset/IncreaseVersion."
	r.NotCovered = []string{"that insert/delete restore the canonical trie shape (value-level)", "that parallel and sequential commits agree (dynamic)", "collision resistance of the hash", "equality with an independent reference root (a dynamic oracle, out of family)"}
	r.Trusted = []string{"sort.Slice with key.cmp is a total order on distinct tree keys"}
	d := newDetSet(c, "store.(*Store).Root", "store.(*Store).Commit")
	inSMT := func(f *ssa.Function) bool {
		pos := c.p.Fset.Position(enclosing(f).Pos()).Filename
		return strings.HasSuffix(pos, "store/smt.go") || strings.HasSuffix(pos, "store/txn.go") || strings.HasSuffix(pos, "store/store.go")
	}
	r.Analysed["root_reachable_functions"] = len(d.list)
	r.Rule("R1", "DET", "canonical order: every range over the pending-write map on the way to the root either only performs keyed writes or collects into a slice that is sorted (by tree key) before use", 8)
	r.Analysed["map_ranges"] = d.ruleMapRanges("R1", inSMT)
	// the comparator of both sorts is key.cmp on the node keys
	for _, spec := range []string{"store.(*SMT).Commit", "store.(*SMT).sortOperationsByPrefix"} {
		f := c.fn(spec)
		if f == nil {
			continue
		}
		okCmp := false
		// the comparator literal sits in the function itself, in a transparent helper, or in a helper that sorts its parameter
		var cands []*ssa.Function
		for _, g := range bodyFuncs(f, true) {
			cands = append(cands, g)
			for _, cs := range allCalls(g) {
				if sc := cs.Common().StaticCallee(); sc != nil && inCanopyRaw(sc) && sorterParam(c.p, sc, 0) >= 0 {
					cands = append(cands, withAnons(origin(sc))...)
				}
			}
		}
		for _, a := range cands {
			if a.Parent() == nil {
				continue // comparators are function literals
			}
			for _, blk := range a.Blocks {
				for _, in := range blk.Instrs {
					if cc := callCommon(in); cc != nil && strings.HasSuffix(calleeName(cc), ".cmp") && len(cc.Args) >= 2 {
						if strings.HasSuffix(c.p.path(cc.Args[0]), ".Key") && strings.HasSuffix(c.p.path(cc.Args[1]), ".Key") {
							okCmp = true
						}
					}
				}
			}
		}
		r.Check(okCmp, "R1/"+fnName(f)+"/comparator", c.p.Pos(f.Pos()), "sorted by node key (key.cmp)", fnName(f)+" no longer sorts the operations by their tree key: the commit order would follow Go's map order")
	}
	// the parallel path partitions by the 3-bit prefix of that same key
	r.Rule("R2", "PAIR", "synthetic borders are removed on every exit: after addSyntheticBorders succeeded, cleanup is deferred before any further return and its error is propagated", 2)
	commitPar := c.fn("store.(*SMT).CommitParallel")
	addBorders := c.fn("store.(*SMT).addSyntheticBorders")
	if commitPar != nil && addBorders != nil {
		// the deferred closure calls the cleanup function returned by addSyntheticBorders
		var deferredCleanup *ssa.Function
		instrs(commitPar, func(in ssa.Instruction) {
			if df, ok := in.(*ssa.Defer); ok {
				if mc, ok := df.Call.Value.(*ssa.MakeClosure); ok {
					fn := mc.Fn.(*ssa.Function)
					instrs(fn, func(i2 ssa.Instruction) {
						if cc := callCommon(i2); cc != nil && strings.Contains(c.p.path(cc.Value), "addSyntheticBorders()#0") {
							deferredCleanup = fn
						}
					})
				}
			}
		})
		if deferredCleanup == nil {
			r.Bad("R2/CommitParallel/deferred-cleanup", c.p.Pos(commitPar.Pos()), "CommitParallel no longer defers the cleanup returned by addSyntheticBorders: border nodes would stay in the tree and change the root")
		} else {
			r.OK("R2/CommitParallel/deferred-cleanup", c.p.Pos(deferredCleanup.Pos()), "cleanup() is called from a deferred closure")
			getSubtreeRoots := c.fn("store.(*SMT).getSubtreeRoots")
			c.mpt(mptSpec{
				rule: "R2", fn: commitPar, events: evSet{"addSyntheticBorders": {addBorders}},
				extraEv: func(in ssa.Instruction) string {
					if df, ok := in.(*ssa.Defer); ok {
						if mc, ok := df.Call.Value.(*ssa.MakeClosure); ok && mc.Fn == deferredCleanup {
							return "deferCleanup"
						}
					}
					return ""
				},
				target: func(in ssa.Instruction, st *PState, e *pathEngine) string {
					if in.Parent() != e.r.Fn {
						return ""
					}
					if _, ok := in.(*ssa.Go); ok {
						return "spawn"
					}
					if getSubtreeRoots != nil {
						if cc := callCommon(in); cc != nil && callIs(cc, getSubtreeRoots) {
							return "first-use-after-borders"
						}
					}
					return ""
				},
				reqs:      func(string) []string { return []string{"addSyntheticBorders.ok", "deferred:deferCleanup"} },
				minTarget: 1,
			})
			// the deferred closure reports a failed cleanup through the named result
			prop := false
			instrs(deferredCleanup, func(in ssa.Instruction) {
				if st, ok := in.(*ssa.Store); ok {
					if _, isFV := st.Addr.(*ssa.FreeVar); isFV && isErrorType(st.Val.Type()) {
						prop = true
					}
				}
			})
			r.Check(prop, "R2/CommitParallel/cleanup-error-propagated", c.p.Pos(deferredCleanup.Pos()), "a failed cleanup becomes the function's error", "a failing border cleanup is no longer reported: a tree with leftover border nodes would be committed silently")
		}
	}
	r.Rule("R3", "DET", "join before merge: the subtree workers are collected (counted receives bounded by the number launched) on every path to return, each worker sends exactly one result on every exit, and mergeSubtreeOps runs only after the collection loop", 2)
	d.ruleForkJoin("R3", func(f *ssa.Function) bool { return strings.HasSuffix(fnName(enclosing(f)), "CommitParallel") })
	if commitPar != nil {
		merge := c.fn("store.(*Txn).mergeSubtreeOps")
		if merge != nil {
			c.mpt(mptSpec{
				rule: "R3", fn: commitPar, events: evSet{},
				extraEv: func(in ssa.Instruction) string {
					if _, ok := in.(*ssa.Go); ok {
						return "spawn"
					}
					if u, ok := in.(*ssa.UnOp); ok && u.Op == token.ARROW {
						return "recv"
					}
					return ""
				},
				atom: ordAtom("collected<spawned", token.LSS,
					func(x ssa.Value) bool { return true },
					func(y ssa.Value) bool {
						// the bound is the counter incremented next to the go statement
						for _, bo := range counterIncrements(y) {
							for _, in := range bo.Block().Instrs {
								if _, ok := in.(*ssa.Go); ok {
									return true
								}
							}
						}
						return false
					}),
				target:    tgtCall("merge", merge),
				reqs:      func(string) []string { return []string{"@collected<spawned=F"} },
				minTarget: 1,
			})
		}
	}
	r.Rule("R4", "WHO", "node-cache lifetime: Store.sc (the tree with its node cache) is created only in Root() and NewReadOnly and set to nil in Discard and IncreaseVersion; Reset discards; Commit resets after the root was taken", 4)
	if scF := c.field("store", "Store", "sc"); scF != nil {
		c.whoWrites("R4", scF, "Store.sc", allow{
			c.fnQuiet("store.(*Store).Root"):            "fresh tree (fresh node cache) per block",
			c.fnQuiet("store.(*Store).Discard"):         "dropped with the block's working state",
			c.fnQuiet("store.(*Store).IncreaseVersion"): "dropped when the version moves",
		}, true)
		// a Store under construction (Copy, NewReadOnly, the constructors) starts without a tree or with one it built itself:
		// a tree handed over from another Store keeps answering Root() with that store's root whatever is written afterwards
		for _, w := range c.p.fieldWrites(scF) {
			if isTestFile(c.p, w.Instr.Pos()) || !isFreshAlloc(w.Base) {
				continue
			}
			p := c.p.path(w.Instr.Val)
			okv := isNilConst(w.Instr.Val) || allAlts(p, func(a string) bool {
				return a == "nil" || strings.HasPrefix(a, "store.NewSMT(") || strings.HasPrefix(a, "store.NewDefaultSMT(")
			})
			r.Check(okv, "R4/Store.sc/initial/"+fnName(enclosing(origin(w.Fn))), c.p.Pos(w.Instr.Pos()), "a new Store starts with no tree or its own fresh tree", fnName(enclosing(origin(w.Fn)))+" builds a Store whose commitment tree is "+p+": a tree (and node cache) shared with or inherited from another Store makes Root() of the new store answer for the other store's writes")
		}
		discard := c.fn("store.(*Store).Discard")
		reset := c.fn("store.(*Store).Reset")
		if discard != nil && reset != nil {
			r.Check(len(callsIn(reset, false, discard)) >= 1, "R4/Reset/discards", c.p.Pos(reset.Pos()), "Reset calls Discard (drops the tree)", "Store.Reset no longer discards the old working state: the node cache of a speculative Root() would survive into the next block")
			nilStore := false
			for _, st := range storesTo(discard, scF) {
				if isNilConst(st.Val) {
					nilStore = true
				}
			}
			r.Check(nilStore, "R4/Discard/drops-tree", c.p.Pos(discard.Pos()), "Discard sets sc = nil", "Store.Discard no longer drops the commitment tree object")
		}
		// the SMT's node cache is a field written only at construction / reset
		if ncF := c.p.Field("store", "SMT", "nodeCache"); ncF != nil {
			ws := c.p.fieldWrites(ncF)
			for _, w := range ws {
				if isTestFile(c.p, w.Instr.Pos()) {
					continue
				}
				fresh := isFreshAlloc(w.Base) || strings.HasPrefix(c.p.path(w.Instr.Val), "makemap")
				r.Check(fresh, "R4/SMT.nodeCache/"+fnName(w.Fn), c.p.Pos(w.Instr.Pos()), "node cache is (re)created empty", "SMT.nodeCache is assigned "+c.p.path(w.Instr.Val)+" in "+fnName(w.Fn)+": a node cache carried over from another tree can serve stale nodes")
			}
		}
	}

	r.Rule("R5", "MPT+WHO", "the parent's node cache is dropped wholesale before the tree is edited again after the workers wrote behind it: the border-cleanup closure stores a fresh map into SMT.nodeCache before it commits the border deletions; cache entries are otherwise written/deleted only together with the node itself (setNode/getNode/delNode)", 3)
	if ncF := c.p.Field("store", "SMT", "nodeCache"); ncF != nil {
		addBorders := c.fn("store.(*SMT).addSyntheticBorders")
		smtCommit := c.fn("store.(*SMT).commit")
		if addBorders != nil && smtCommit != nil {
			// the cleanup closure is the closure addSyntheticBorders returns
			var cleanupFn *ssa.Function
			instrs(addBorders, func(in ssa.Instruction) {
				if mc, ok := in.(*ssa.MakeClosure); ok {
					if fn, ok := mc.Fn.(*ssa.Function); ok && c.p.callsThroughNew(fn, smtCommit, 0) {
						cleanupFn = fn
					}
				}
			})
			if cleanupFn == nil {
				r.Unk("R5/cleanup-closure", c.p.Pos(addBorders.Pos()), "could not find the border-cleanup closure (the closure addSyntheticBorders returns and that commits the border deletions)")
			} else {
				c.mpt(mptSpec{
					rule: "R5", fn: cleanupFn, events: evSet{},
					extraEv: func(in ssa.Instruction) string {
						if f, _, val := storeField(in); f == ncF {
							if strings.HasPrefix(c.p.path(val), "makemap") {
								return "freshNodeCache"
							}
						}
						return ""
					},
					target:    tgtCall("commit-border-deletions", smtCommit),
					reqs:      func(string) []string { return []string{"seen:freshNodeCache"} },
					minTarget: 1,
				})
			}
		}
		// who touches individual cache entries
		allowedEntry := map[string]string{"(*store.SMT).setNode": "entry written together with the node", "(*store.SMT).getNode": "entry filled from the store on a miss", "(*store.SMT).delNode": "entry removed together with the node"}
		for _, f := range c.p.Funcs {
			if pkgShort(f) != "store" || isTestFile(c.p, f.Pos()) {
				continue
			}
			instrs(f, func(in ssa.Instruction) {
				var m ssa.Value
				kind := ""
				switch x := in.(type) {
				case *ssa.MapUpdate:
					m, kind = x.Map, "update"
				case ssa.CallInstruction:
					if b, ok := x.Common().Value.(*ssa.Builtin); ok && b.Name() == "delete" {
						m, kind = x.Common().Args[0], "delete"
					}
				}
				if m == nil {
					return
				}
				if fv, _ := loadedField(m); fv != ncF {
					return
				}
				enc := fnName(enclosing(f))
				if why, ok := allowedEntry[enc]; ok {
					r.OK("R5/nodeCache-entry/"+kind+"/"+enc, c.p.Pos(in.Pos()), why)
				} else {
					r.Bad("R5/nodeCache-entry/"+kind+"/"+enc, c.p.Pos(in.Pos()), enc+" edits individual entries of the SMT node cache ("+kind+"): selective invalidation must know exactly which nodes other writers rewrote; stale entries make the root depend on commit history")
				}
			})
		}
	}
	c.ruleRollbackPrunesAllPrefixes("R6")
}
