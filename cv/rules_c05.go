package main

import (
	"fmt"
	"go/ast"
	"go/types"
	"regexp"
	"sort"
	"strings"

	"golang.org/x/tools/go/ssa"
)

func init() { register("C05", c05) }

var typeAssertRe = regexp.MustCompile(`\$1\.\(\*fsm\.Message[A-Za-z]+\)(#0)?`)

// authTable derives, from GetAuthorizedSignersFor's SSA, the expressions that name the authorised
// signers of each message type: message type -> normalised paths ("$1.FromAddress",
// "validator:$1.Address", "addr($1.PublicKey)", "$0.GetOrder($1.OrderId,$1.ChainId)#0.SellersSendAddress").
func authTable(c *ctx, f *ssa.Function) map[string][]string {
	out := map[string][]string{}
	instrs(f, func(in ssa.Instruction) {
		ret, ok := in.(*ssa.Return)
		if !ok || len(ret.Results) == 0 {
			return
		}
		var paths []string
		if elems := sliceLitElems(ret.Results[0]); elems != nil {
			for _, e := range elems {
				paths = append(paths, c.p.path(e))
			}
		} else {
			p := c.p.path(ret.Results[0])
			if strings.Contains(p, "GetAuthorizedSignersForValidator(") {
				i := strings.Index(p, "GetAuthorizedSignersForValidator(")
				arg := p[i+len("GetAuthorizedSignersForValidator("):]
				arg = arg[:strings.LastIndex(arg, ")")]
				paths = append(paths, "validator:"+arg)
			}
		}
		for _, p := range paths {
			m := typeAssertRe.FindString(p)
			if m == "" {
				continue
			}
			typ := strings.TrimSuffix(strings.TrimSuffix(strings.TrimPrefix(m, "$1.(*fsm."), "#0"), ")")
			norm := strings.ReplaceAll(p, m, "$1")
			norm = strings.ReplaceAll(norm, "$0.pubKeyBytesToAddress(", "addr(")
			norm = strings.TrimSuffix(norm, "#0")
			if !strings.HasPrefix(norm, "addr(") {
				norm = strings.ReplaceAll(norm, ")#0.", ")#0.")
			}
			out[typ] = append(out[typ], norm)
		}
	})
	for k := range out {
		sort.Strings(out[k])
	}
	return out
}

// C05 — Authorization.
func c05(c *ctx) {
	r := c.r
	r.Explain = "Static decision of the authorisation skeleton: (R1) the handler switch, the authorised-signer switch, the fee switch and the message registry enumerate the same messages and default to an error; " +
		"(R2) every account debit in a message handler is addressed by an expression that GetAuthorizedSignersFor names for that message (or by the Signer field, which is written only from the verified signer), governance handlers act only after ApproveProposal ok; " +
		"(R3) path rules: CheckTx succeeds only after CheckReplay, CheckMessage/CheckFee/GetAuthorizedSignersFor (or the plugin's CheckTx) and CheckSignature succeeded; CheckSignature returns an address only after a verification succeeded for the key whose address is returned and that address equals an authorised signer; ApplyTransaction acts only after CheckTx ok and only with the verified sender; " +
		"(R4) the batch verifier's verdicts are consumed before any transaction executes; (R5) sign bytes cover every transaction field but the signature; (R6) the RLP path verifies hash equality."
	r.NotCovered = []string{"the signature schemes themselves (BLS, ed25519, secp256k1)", "multisig threshold arithmetic", "signature-cache hit equivalence", "plugin-side authorisation"}
	r.Trusted = []string{"lib/crypto verification functions", "protobuf deterministic marshalling"}

	handleMessage := c.fn("fsm.(*StateMachine).HandleMessage")
	getAuth := c.fn("fsm.(*StateMachine).GetAuthorizedSignersFor")
	getFee := c.fn("fsm.(*StateMachine).GetFeeForMessageName")
	checkTx := c.fn("fsm.(*StateMachine).CheckTx")
	checkSig := c.fn("fsm.(*StateMachine).CheckSignature")
	checkReplay := c.fn("fsm.(*StateMachine).CheckReplay")
	checkMessage := c.fn("fsm.(*StateMachine).CheckMessage")
	checkFee := c.fn("fsm.(*StateMachine).CheckFee")
	applyTx := c.fn("fsm.(*StateMachine).ApplyTransaction")
	applyTxs := c.fn("fsm.(*StateMachine).ApplyTransactions")
	accountSub := c.fn("fsm.(*StateMachine).AccountSub")
	populate := c.fn("fsm.(*StateMachine).PopulateSpecialMessageFields")
	approve := c.fn("fsm.(*StateMachine).ApproveProposal")
	if handleMessage == nil || getAuth == nil || getFee == nil || checkTx == nil || checkSig == nil || checkReplay == nil || checkMessage == nil || checkFee == nil || applyTx == nil || applyTxs == nil || accountSub == nil || populate == nil || approve == nil {
		return
	}

	// ------------------------------------------------------------------ R1
	r.Rule("R1", "AGREE", "HandleMessage, GetAuthorizedSignersFor, GetFeeForMessageName and lib.RegisteredMessages enumerate the same message set; every default arm returns an error; each message's Name() is its registry key", 48)
	hs, as, fs := c.p.typeSwitchOf(handleMessage), c.p.typeSwitchOf(getAuth), c.p.exprSwitchOf(getFee)
	var regGlobal types.Object
	if lp := c.p.pkg("lib"); lp != nil {
		regGlobal = lp.Types.Scope().Lookup("RegisteredMessages")
	}
	if hs == nil || as == nil || fs == nil || !r.Anchor(regGlobal != nil, "lib.RegisteredMessages") {
		r.Unk("R1/switches", c.p.Pos(handleMessage.Pos()), "could not find the type/expression switches in HandleMessage / GetAuthorizedSignersFor / GetFeeForMessageName")
	} else {
		reg := c.p.registryInsertions("fsm", regGlobal)
		var regTypes, regNames []string
		for k, t := range reg {
			regNames = append(regNames, k)
			regTypes = append(regTypes, t)
		}
		pos := c.p.Pos(handleMessage.Pos())
		c.setsEqual("R1", "HandleMessage", caseNames(hs), "GetAuthorizedSignersFor", caseNames(as), pos)
		c.setsEqual("R1", "HandleMessage", caseNames(hs), "RegisteredMessages", regTypes, pos)
		c.setsEqual("R1", "GetFeeForMessageName", caseNames(fs), "RegisteredMessages[keys]", regNames, pos)
		r.Check(hs.HasDefault && defaultReturnsError(hs), "R1/HandleMessage/default", pos, "default arm returns an error", "HandleMessage's default arm does not return an error: an unknown message would be accepted as a no-op")
		r.Check(as.HasDefault && defaultReturnsError(as), "R1/GetAuthorizedSignersFor/default", c.p.Pos(getAuth.Pos()), "default arm returns an error", "GetAuthorizedSignersFor's default arm does not return an error")
		r.Check(fs.HasDefault && defaultReturnsError(fs), "R1/GetFeeForMessageName/default", c.p.Pos(getFee.Pos()), "default arm returns an error", "GetFeeForMessageName's default arm does not return an error: an unknown message would be free")
		// each case of HandleMessage dispatches to a handler taking that very type (no cross-wiring)
		info := c.p.InfoFor(handleMessage)
		for _, cs := range hs.Cases {
			okc := false
			ast.Inspect(cs.Clause, func(n ast.Node) bool {
				call, ok := n.(*ast.CallExpr)
				if !ok {
					return true
				}
				if sig, ok := info.Types[call.Fun].Type.(*types.Signature); ok && sig.Params().Len() == 1 {
					if types.TypeString(sig.Params().At(0).Type(), shortQual) == cs.Name {
						okc = true
					}
				}
				return true
			})
			r.Check(okc, "R1/HandleMessage/dispatch/"+cs.Name, pos, "dispatches to a handler of its own type", "case "+cs.Name+" does not call a handler whose parameter is "+cs.Name)
		}
		// Name() of every registered type is its registry key
		fsmPkg := c.p.pkg("fsm")
		for key, typ := range reg {
			tn := strings.TrimPrefix(typ, "*fsm.")
			nameFn := c.fnQuiet("fsm.(*" + tn + ").Name")
			okn := false
			if nameFn != nil && fsmPkg != nil {
				instrs(nameFn, func(in ssa.Instruction) {
					if ret, ok := in.(*ssa.Return); ok && len(ret.Results) == 1 {
						if cst, ok := ret.Results[0].(*ssa.Const); ok {
							if ko, ok := fsmPkg.Types.Scope().Lookup(key).(*types.Const); ok && cst.Value != nil && cst.Value.ExactString() == ko.Val().ExactString() {
								okn = true
							}
						}
					}
				})
			}
			r.Check(okn, "R1/Name/"+tn, pos, "Name() returns "+key, tn+".Name() does not return its registry key "+key+": the fee / decoding of this message would be looked up under another name")
		}
	}

	// ------------------------------------------------------------------ R2
	r.Rule("R2", "FLOW", "every AccountSub in a HandleMessage* handler debits an address that GetAuthorizedSignersFor names for that message type (or the Signer field, written only from the verified signer); validator handlers load the validator GetAuthorizedSignersForValidator was asked about; governance handlers act only after ApproveProposal ok", 12)
	auth := authTable(c, getAuth)
	r.Analysed["auth_table_entries"] = len(auth)
	// where Signer is populated from the verified signer
	signerFrom := map[string]bool{} // message type -> Signer stored from parameter `signer`
	instrs(populate, func(in ssa.Instruction) {
		fv, base, val := storeField(in)
		if fv == nil || fv.Name() != "Signer" {
			return
		}
		if nt := namedOf(base.Type()); nt != nil {
			p := c.p.path(val)
			if p == "$2.Bytes()" {
				signerFrom[nt.Obj().Name()] = true
			} else {
				r.Bad("R2/Signer-source/"+nt.Obj().Name(), c.p.Pos(in.Pos()), "the Signer field of "+nt.Obj().Name()+" is populated from "+p+", not from the verified signer parameter")
			}
		}
	})
	// Signer is written nowhere else (wire value is overwritten before use)
	for tn := range signerFrom {
		if fv := c.p.Field("fsm", tn, "Signer"); fv != nil {
			c.whoWrites("R2", fv, tn+".Signer", allow{populate: "populated from the verified signer", c.fnQuiet("fsm.(*" + tn + ").UnmarshalJSON"): "JSON decoding (RPC input, overwritten by PopulateSpecialMessageFields before use)"}, true)
		}
	}
	// CheckTx passes the address returned by CheckSignature
	for _, cs := range callsIn(checkTx, false, populate) {
		p := c.p.path(argOf(cs, 1))
		r.Check(has(p, ".CheckSignature(") && hasSuffix(p, "#0"), "R2/CheckTx/populate-signer", c.p.Pos(cs.Pos()), "signer argument = "+p, "PopulateSpecialMessageFields receives "+p+" as signer, not the address returned by CheckSignature")
	}
	getValidator := c.fn("fsm.(*StateMachine).GetValidator")
	nDebits := 0
	for _, hc := range hs0(c, handleMessage) {
		h, typ := hc.fn, hc.typ
		allowed := auth[typ]
		for _, cs := range callsIn(h, true, accountSub) {
			nDebits++
			inner := trimAddrWrappers(c.p.path(argOf(cs, 0)))
			ok := false
			why := ""
			for _, a := range allowed {
				if inner == a {
					ok, why = true, "authorised signer expression "+a
				}
			}
			if !ok && inner == "$1.Signer" && signerFrom[typ] {
				ok, why = true, "Signer = verified signer (populated by PopulateSpecialMessageFields)"
			}
			r.Check(ok, "R2/debit/"+typ, c.p.Pos(cs.Pos()), "debits "+inner+": "+why,
				fmt.Sprintf("%s debits the account %s, which is not among the expressions GetAuthorizedSignersFor authorises for %s {%s}", fnName(h), inner, typ, strings.Join(allowed, ", ")))
		}
		// validator-mutating handlers: the validator loaded is the one authorisation was computed for
		if getValidator != nil {
			for _, a := range allowed {
				if !strings.HasPrefix(a, "validator:") {
					continue
				}
				want := strings.TrimPrefix(a, "validator:")
				gv := callsIn(h, true, getValidator)
				if len(gv) == 0 {
					r.Bad("R2/validator/"+typ, c.p.Pos(h.Pos()), fnName(h)+" is authorised per validator "+want+" but never loads a validator")
				}
				for _, cs := range gv {
					inner := trimAddrWrappers(c.p.path(argOf(cs, 0)))
					r.Check(inner == want, "R2/validator/"+typ, c.p.Pos(cs.Pos()), "operates on validator "+inner, fnName(h)+" loads validator "+inner+" but authorisation was computed for "+want)
				}
			}
		}
	}
	r.Analysed["handler_debit_sites"] = nDebits
	// governance: everything effectful in ChangeParameter / DAOTransfer happens after ApproveProposal ok
	updateParam := c.fn("fsm.(*StateMachine).UpdateParam")
	mintToPool := c.fn("fsm.(*StateMachine).MintToPool")
	poolSub := c.fn("fsm.(*StateMachine).PoolSub")
	accountAdd := c.fn("fsm.(*StateMachine).AccountAdd")
	for _, g := range []struct {
		fn   *ssa.Function
		tgts []*ssa.Function
	}{{c.fn("fsm.(*StateMachine).HandleMessageChangeParameter"), []*ssa.Function{updateParam}}, {c.fn("fsm.(*StateMachine).HandleMessageDAOTransfer"), []*ssa.Function{mintToPool, poolSub, accountAdd}}} {
		if g.fn == nil {
			continue
		}
		c.mpt(mptSpec{rule: "R2", fn: g.fn, events: evSet{"ApproveProposal": {approve}}, target: tgtCall("effect", g.tgts...),
			reqs: func(string) []string { return []string{"ApproveProposal.ok"} }, minTarget: 1})
		for _, cs := range callsIn(g.fn, false, approve) {
			p := c.p.path(argOf(cs, 0))
			r.Check(p == "$1", "R2/ApproveProposal-arg/"+fnName(g.fn), c.p.Pos(cs.Pos()), "approval is asked for the message itself", "ApproveProposal is asked about "+p+", not about the message being handled")
		}
	}

	// ------------------------------------------------------------------ R3
	r.Rule("R3", "MPT", "CheckTx / CheckSignature / ApplyTransaction: success only after every check's ok-edge; the address returned is the verified key's; execution uses the verified sender", 8)
	pluginCheckTx := c.fn("lib.(*Plugin).CheckTx")
	errE := c.fn("lib.(*PluginError).E")
	if pluginCheckTx != nil && errE != nil {
		c.mpt(mptSpec{
			rule: "R3", fn: checkTx,
			events: evSet{"CheckReplay": {checkReplay}, "CheckMessage": {checkMessage}, "CheckFee": {checkFee}, "GetAuthorizedSignersFor": {getAuth}, "CheckSignature": {checkSig},
				"PluginCheckTx": {pluginCheckTx}, "PluginError": {errE}, "CheckBasic": {c.fn("lib.(*Transaction).CheckBasic")}, "Unmarshal": {c.fn("lib.Unmarshal")}},
			target: tgtReturnVal("success-return", 0, true),
			reqs: func(string) []string {
				return []string{"Unmarshal.ok", "CheckBasic.ok", "CheckReplay.ok", "CheckMessage.ok|PluginCheckTx.ok", "CheckFee.ok|PluginCheckTx.ok", "GetAuthorizedSignersFor.ok|PluginCheckTx.ok",
					"CheckMessage.ok|PluginError.ok", "CheckSignature.ok"}
			},
			minTarget: 1,
		})
	}
	// the signers given to CheckSignature are the ones GetAuthorizedSignersFor returned (or the plugin's), for the very tx that was decoded
	for _, cs := range callsIn(checkTx, false, checkSig) {
		p1 := c.p.path(argOf(cs, 1))
		okp := strings.Contains(p1, ".GetAuthorizedSignersFor(") && allAlts(p1, func(a string) bool {
			return strings.Contains(a, ".GetAuthorizedSignersFor(") || strings.HasSuffix(a, ".AuthorizedSigners")
		})
		r.Check(okp, "R3/CheckTx/signers-arg", c.p.Pos(cs.Pos()), "authorizedSigners = "+p1, "CheckSignature receives signers "+p1+", expected the result of GetAuthorizedSignersFor (or the plugin's AuthorizedSigners)")
		p2 := c.p.path(argOf(cs, 2))
		r.Check(p2 == "$3", "R3/CheckTx/batch-arg", c.p.Pos(cs.Pos()), "batch verifier passed through", "CheckSignature receives batch verifier "+p2+" instead of CheckTx's own parameter")
	}
	for _, cs := range callsIn(checkTx, false, getAuth) {
		p := c.p.path(argOf(cs, 0))
		r.Check(has(p, ".CheckMessage(") && hasSuffix(p, "#0"), "R3/CheckTx/auth-msg", c.p.Pos(cs.Pos()), "authorisation computed for the checked message", "GetAuthorizedSignersFor is asked about "+p+", not the message CheckMessage returned")
	}
	// CheckSignature
	batchAdd := c.fn("lib/crypto.(*BatchVerifier).Add")
	verifyRLP := c.fn("fsm.(*StateMachine).VerifyRLPBytes")
	verifyBytesM := c.p.IfaceMethod("lib/crypto", "PublicKeyI", "VerifyBytes")
	equalsM := c.p.IfaceMethod("lib/crypto", "AddressI", "Equals")
	r.Anchor(verifyBytesM != nil, "crypto.PublicKeyI.VerifyBytes")
	r.Anchor(equalsM != nil, "crypto.AddressI.Equals")
	if batchAdd != nil && verifyRLP != nil && verifyBytesM != nil && equalsM != nil {
		c.mpt(mptSpec{
			rule: "R3", fn: checkSig,
			events:  evSet{"Add": {batchAdd}, "VerifyRLP": {verifyRLP}},
			extraEv: invokeEvent(map[*types.Func]string{verifyBytesM: "VerifyBytes", equalsM: "Equals"}),
			atom: func(v ssa.Value) (string, bool) {
				// `_, hasEthPubKey := publicKey.(*crypto.ETHSECP256K1PublicKey)`
				if ex, ok := v.(*ssa.Extract); ok && ex.Index == 1 {
					if ta, ok := ex.Tuple.(*ssa.TypeAssert); ok && strings.HasSuffix(types.TypeString(ta.AssertedType, shortQual), "ETHSECP256K1PublicKey") {
						return "isEthKey", false
					}
				}
				return "", false
			},
			target: tgtReturnVal("address-return", 0, true),
			reqs: func(string) []string {
				return []string{"Add.ok|VerifyBytes#0=T|VerifyRLP.ok", "VerifyRLP.fail|!seen:VerifyRLP|@isEthKey=T", "Equals#0=T"}
			},
			minTarget: 1,
		})
		// operands: same key, same sign bytes, signature from the tx; returned address is that key's
		var keyPath string
		instrs(checkSig, func(in ssa.Instruction) {
			cc := callCommon(in)
			if cc == nil {
				return
			}
			switch {
			case cc.IsInvoke() && cc.Method == verifyBytesM:
				keyPath = c.p.path(cc.Value)
				a0, a1 := c.p.path(cc.Args[0]), c.p.path(cc.Args[1])
				r.Check(a0 == "$1.GetSignBytes()#0" && a1 == "$1.Signature.Signature", "R3/CheckSignature/VerifyBytes-operands", c.p.Pos(in.Pos()), "VerifyBytes("+a0+", "+a1+")", "VerifyBytes is given ("+a0+", "+a1+") instead of (tx.GetSignBytes(), tx.Signature.Signature)")
				r.Check(keyPath == "lib/crypto.NewPublicKeyFromBytes($1.Signature.PublicKey)#0", "R3/CheckSignature/VerifyBytes-key", c.p.Pos(in.Pos()), "key = "+keyPath, "the verifying key is "+keyPath+", not the key decoded from tx.Signature.PublicKey")
			case callIs(cc, batchAdd):
				var ps []string
				for _, a := range cc.Args[1:] {
					ps = append(ps, c.p.path(a))
				}
				want := []string{"lib/crypto.NewPublicKeyFromBytes($1.Signature.PublicKey)#0", "$1.Signature.PublicKey", "$1.GetSignBytes()#0", "$1.Signature.Signature"}
				r.Check(strings.Join(ps, " ; ") == strings.Join(want, " ; "), "R3/CheckSignature/batch-operands", c.p.Pos(in.Pos()), "batch.Add("+strings.Join(ps, ", ")+")", "the batch verifier is given ("+strings.Join(ps, ", ")+"), expected ("+strings.Join(want, ", ")+")")
			case cc.IsInvoke() && cc.Method == equalsM:
				recv := c.p.path(cc.Value)
				arg := trimAddrWrappers(c.p.path(cc.Args[0]))
				r.Check(recv == "lib/crypto.NewPublicKeyFromBytes($1.Signature.PublicKey)#0.Address()" && strings.HasPrefix(arg, "$2["), "R3/CheckSignature/Equals-operands", c.p.Pos(in.Pos()), recv+".Equals("+arg+")",
					"the authorisation comparison is "+recv+".Equals("+arg+"), expected the verified key's address against an element of authorizedSigners")
			}
		})
		instrs(checkSig, func(in ssa.Instruction) {
			if ret, ok := in.(*ssa.Return); ok && len(ret.Results) == 2 && !isNilConst(ret.Results[0]) && !forwardsTransparent(ret.Results[0]) {
				p := c.p.path(ret.Results[0])
				r.Check(p == "lib/crypto.NewPublicKeyFromBytes($1.Signature.PublicKey)#0.Address()", "R3/CheckSignature/returned-address", c.p.Pos(checkSig.Pos()), "returns "+p, "CheckSignature returns "+p+", not the address of the key that was verified")
			}
		})
	}
	// ApplyTransaction
	deductFees := c.fn("fsm.(*StateMachine).AccountDeductFees")
	pluginDeliver := c.fn("lib.(*Plugin).DeliverTx")
	if deductFees != nil && pluginDeliver != nil {
		c.mpt(mptSpec{
			rule: "R3", fn: applyTx,
			events: evSet{"CheckTx": {checkTx}, "DeductFees": {deductFees}},
			target: tgtAny(tgtCall("AccountDeductFees", deductFees), tgtCall("HandleMessage", handleMessage), tgtCall("DeliverTx", pluginDeliver)),
			reqs: func(l string) []string {
				if l == "HandleMessage" {
					return []string{"CheckTx.ok", "DeductFees.ok"}
				}
				return []string{"CheckTx.ok"}
			},
			minTarget: 3,
		})
		for _, cs := range callsIn(applyTx, false, deductFees) {
			p := c.p.path(argOf(cs, 0))
			r.Check(strings.HasSuffix(p, ".CheckTx($2,$3,$4)#0.sender"), "R3/ApplyTransaction/fee-payer", c.p.Pos(cs.Pos()), "fee payer = "+p, "fees are deducted from "+p+", not from the verified sender of CheckTx's result")
		}
		for _, cs := range callsIn(applyTx, false, handleMessage) {
			p := c.p.path(argOf(cs, 0))
			r.Check(strings.HasSuffix(p, ".CheckTx($2,$3,$4)#0.msg"), "R3/ApplyTransaction/handled-msg", c.p.Pos(cs.Pos()), "handled message = "+p, "HandleMessage receives "+p+", not the message CheckTx validated")
		}
	}

	// ------------------------------------------------------------------ R4
	r.Rule("R4", "PAIR", "the batch verifier created in ApplyTransactions is verified before any transaction executes and its verdicts gate execution; the no-op verifier is used only there", 3)
	newBatch := c.fn("lib/crypto.NewBatchVerifier")
	batchVerify := c.fn("lib/crypto.(*BatchVerifier).Verify")
	if newBatch != nil && batchVerify != nil {
		c.mpt(mptSpec{
			rule: "R4", fn: applyTxs,
			events: evSet{"Verify": {batchVerify}},
			atom: func(v ssa.Value) (string, bool) {
				if ex, ok := v.(*ssa.Extract); ok && ex.Index == 1 {
					if lk, ok := ex.Tuple.(*ssa.Lookup); ok && lk.CommaOk && strings.HasPrefix(c.p.path(lk.X), "makemap") {
						return "failedCheck[i]", false
					}
				}
				return "", false
			},
			target:    tgtCall("ApplyTransaction", applyTx),
			reqs:      func(string) []string { return []string{"seen:Verify", "@failedCheck[i]=F"} },
			minTarget: 1,
		})
		// a transaction that fails the pre-pass CheckTx is recorded as failed before the pass moves on
		c.mpt(mptSpec{
			rule: "R4", fn: applyTxs, events: evSet{"CheckTx": {checkTx}, "Verify": {batchVerify}},
			extraEv: func(in ssa.Instruction) string {
				if mu, ok := in.(*ssa.MapUpdate); ok && strings.HasPrefix(c.p.path(mu.Map), "makemap") && isErrorType(mu.Value.Type()) {
					return "recordFailed"
				}
				return ""
			},
			resets:    map[string][]string{"CheckTx": {"recordFailed"}},
			target:    tgtAny(tgtCall("next-precheck", checkTx), tgtCall("batch-verify", batchVerify)),
			reqs:      func(string) []string { return []string{"!seen:CheckTx|CheckTx.ok|seen:recordFailed"} },
			minTarget: 2,
		})
		// verdicts are recorded: the result of Verify() is ranged over and stored into the map the loop consults
		okUse := false
		for _, cs := range callsIn(applyTxs, false, batchVerify) {
			if v, ok := cs.(ssa.Value); ok && len(*v.Referrers()) > 0 {
				instrs(applyTxs, func(in ssa.Instruction) {
					if mu, ok := in.(*ssa.MapUpdate); ok {
						if strings.Contains(c.p.path(mu.Key), "[") && strings.HasPrefix(c.p.path(mu.Map), "makemap") {
							okUse = true
						}
					}
				})
			}
		}
		r.Check(okUse, "R4/ApplyTransactions/verdicts-recorded", c.p.Pos(applyTxs.Pos()), "Verify()'s indices are stored into the failed-check map", "the indices returned by BatchVerifier.Verify() are not recorded into the map that gates execution: a bad signature would execute")
		// Verify's receiver is the verifier CheckTx filled
		for _, cs := range callsIn(applyTxs, false, checkTx) {
			p := c.p.path(argOf(cs, 2))
			r.Check(p == "lib/crypto.NewBatchVerifier(nil)", "R4/ApplyTransactions/prepass-verifier", c.p.Pos(cs.Pos()), "pre-pass uses the real batch verifier", "the signature pre-pass hands CheckTx "+p+" instead of a real batch verifier")
		}
		// NewBatchVerifier(true) (no-op) is used only inside ApplyTransactions
		for _, s := range c.p.callSitesOf(newBatch) {
			if !inCanopy(s.Caller) || isTestFile(c.p, s.Site.Pos()) {
				continue
			}
			args := s.Site.Common().Args
			noop := false
			if len(args) == 1 {
				// variadic: a slice literal with a true constant means no-op
				for _, e := range sliceLitElems(args[0]) {
					if b, ok := boolConst(e); ok && b {
						noop = true
					}
				}
				if !noop && !isNilConst(args[0]) && sliceLitElems(args[0]) == nil {
					noop = true // not a literal: cannot tell, treat as no-op (must then be in the permitted place)
				}
			}
			if noop {
				enc := enclosing(s.Caller)
				r.Check(enc == applyTxs, "R4/noop-verifier/"+fnName(enc), c.p.Pos(s.Site.Pos()), "no-op verifier only inside ApplyTransactions (after the batch was verified)", "a no-op batch verifier is created in "+fnName(enc)+": signatures checked with it are never verified")
			}
		}
	}

	// ------------------------------------------------------------------ R5
	r.Rule("R5", "COVER", "Transaction.GetSignBytes covers every field of lib.Transaction except Signature, each from the same field of the receiver", 10)
	txT := c.p.Named("lib", "Transaction")
	getSignBytes := c.fn("lib.(*Transaction).GetSignBytes")
	if txT != nil && getSignBytes != nil {
		lits := c.p.compositeLits(getSignBytes, txT)
		if len(lits) != 1 {
			r.Unk("R5/GetSignBytes/literal", c.p.Pos(getSignBytes.Pos()), fmt.Sprintf("expected one Transaction literal, found %d", len(lits)))
		} else {
			have := map[string]bool{}
			for k, v := range lits[0] {
				if id, ok := v.(*ast.Ident); ok && id.Name == "nil" {
					continue
				}
				have[k] = true
				// value must be x.<k>
				se, ok := v.(*ast.SelectorExpr)
				r.Check(ok && se.Sel.Name == k, "R5/GetSignBytes/source/"+k, c.p.Pos(getSignBytes.Pos()), "taken from the same field", "sign-bytes field "+k+" is not taken from the receiver's "+k)
			}
			c.coverCheck("R5", "GetSignBytes", txT, protoFields(txT), have, map[string]string{"Signature": "is the signature itself"}, c.p.Pos(getSignBytes.Pos()))
		}
	}

	// ------------------------------------------------------------------ R6
	r.Rule("R6", "MPT", "VerifyRLPBytes returns nil only after the re-derived transaction hash equals the transaction's own hash", 1)
	bytesEqual := lookupStd(c.p, "bytes", "Equal")
	if verifyRLP != nil && bytesEqual != nil {
		c.mpt(mptSpec{rule: "R6", fn: verifyRLP, events: evSet{"bytes.Equal": {bytesEqual}}, target: tgtOkReturn("ok-return"),
			reqs: func(string) []string { return []string{"bytes.Equal#0=T"} }, minTarget: 1})
		for _, cs := range callsIn(verifyRLP, false, bytesEqual) {
			a, b := c.p.path(cs.Common().Args[0]), c.p.path(cs.Common().Args[1])
			ok := (hasSuffix(a, ".GetHash()#0") && b == "$1.GetHash()#0" && has(a, "RLPToCanopyTransaction")) || (hasSuffix(b, ".GetHash()#0") && a == "$1.GetHash()#0" && has(b, "RLPToCanopyTransaction"))
			r.Check(ok, "R6/VerifyRLPBytes/operands", c.p.Pos(cs.Pos()), "compares hash of the RLP-derived transaction with tx.GetHash()", "VerifyRLPBytes compares "+a+" with "+b+", expected the hash of the transaction re-derived from the signed RLP against tx.GetHash()")
		}
	}
}

type handlerCase struct {
	fn  *ssa.Function
	typ string
}

// hs0 lists the handler each case of HandleMessage's switch dispatches to (resolved through SSA calls).
func hs0(c *ctx, handleMessage *ssa.Function) []handlerCase {
	var out []handlerCase
	seen := map[*ssa.Function]bool{}
	instrs(handleMessage, func(in ssa.Instruction) {
		cc := callCommon(in)
		if cc == nil {
			return
		}
		callee := staticCallee(cc)
		if callee == nil || !strings.HasPrefix(callee.Name(), "HandleMessage") || seen[callee] {
			return
		}
		ps := callee.Signature.Params()
		if ps.Len() != 1 {
			return
		}
		nt := namedOf(ps.At(0).Type())
		if nt == nil {
			return
		}
		seen[callee] = true
		out = append(out, handlerCase{callee, nt.Obj().Name()})
	})
	return out
}
