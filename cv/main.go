// cv — canopy-verify: decides structural necessary conditions of the properties in
// /verif/properties.jsonl from the type-checked source of /repo (AST, SSA, call graph). It never
// runs canopy code. See /verif/DESIGN.md.
package main

import (
	"encoding/json"
	"flag"
	"fmt"
	"os"
	"runtime/debug"
	"sort"
	"strconv"
	"strings"
	"time"
)

type propFn func(c *ctx)

var registry = map[string]propFn{}

func register(id string, f propFn) { registry[id] = f }

func main() {
	repo := flag.String("repo", "/repo", "repository to analyse (its current working tree)")
	props := flag.String("props", "all", "comma separated property ids, or all")
	tier := flag.String("tier", "quick", "quick | thorough")
	out := flag.String("out", "/verif/evidence", "evidence directory")
	knownPath := flag.String("known", "/verif/known_findings.txt", "known findings file (read only)")
	list := flag.Bool("list", false, "list obligations")
	dumpFuncs := flag.Bool("dumpfuncs", false, "print the reference list of named canopy functions (cv/reference_funcs.txt) and exit")
	selftest := flag.String("selftest", "", "JSON result of selftest/run.sh for the (single) property; merged into the evidence (thorough tier)")
	flag.Parse()
	seed := 0
	if s := os.Getenv("VERIF_SEED"); s != "" {
		seed, _ = strconv.Atoi(s)
	}
	var ids []string
	if *props == "all" {
		for id := range registry {
			ids = append(ids, id)
		}
	} else {
		ids = strings.Split(*props, ",")
	}
	sort.Strings(ids)
	for _, id := range ids {
		if registry[id] == nil {
			fmt.Fprintf(os.Stderr, "no check registered for property %s\n", id)
			os.Exit(2)
		}
	}
	t0 := time.Now()
	known, fixed, err := loadKnown(*knownPath)
	if err != nil {
		fmt.Fprintln(os.Stderr, "known findings:", err)
		os.Exit(2)
	}
	p, err := Load(*repo, *tier == "thorough")
	if err != nil {
		// a tree that cannot be loaded/type-checked cannot be decided: every requested property fails
		fmt.Fprintln(os.Stderr, "LOAD FAILED:", err)
		code := 0
		for _, id := range ids {
			r := NewRep(id)
			r.Rule("LOAD", "loader", "the tree must load and type-check before any rule can be decided", 0)
			r.Unk("load", "?", "load failed: "+firstLine(err.Error()))
			r.Explain = "analysis could not run: " + firstLine(err.Error())
			if c := r.Emit(nil, *out, *tier, seed, known, fixed, time.Since(t0).Seconds(), nil); c > code {
				code = c
			}
		}
		os.Exit(maxInt(code, 1))
	}
	theProg = p
	p.newFns() // reference list, renames, transparent helpers: computed once, before any rule runs
	if *dumpFuncs {
		for _, n := range p.dumpFuncs() {
			fmt.Println(n)
		}
		os.Exit(0)
	}
	fmt.Fprintf(os.Stderr, "loaded %d packages (%d canopy), %d canopy functions, call graph %s %d nodes / %d edges, in %.1fs\n",
		p.Stats["packages_loaded"], p.Stats["canopy_packages"], p.Stats["canopy_functions"], p.CGKind, p.Stats["callgraph_nodes"], p.Stats["callgraph_edges"], p.LoadS)
	code := 0
	for _, id := range ids {
		t1 := time.Now()
		r := NewRep(id)
		c := &ctx{p: p, r: r, thr: *tier == "thorough"}
		func() {
			defer func() {
				if rec := recover(); rec != nil {
					// a panicking rule is a broken checker, reported as undecided (never a silent pass)
					r.Rule("PANIC", "checker", "rule evaluation must not panic", 0)
					r.Unk("panic", "?", fmt.Sprintf("checker panic: %v\n%s", rec, string(debug.Stack())))
				}
			}()
			registry[id](c)
		}()
		wall := p.LoadS + time.Since(t1).Seconds()
		if *list {
			for _, o := range r.Obls {
				fmt.Printf("  %-10s %-80s %s  %s\n", o.Verdict, o.Key, o.Pos, o.Detail)
			}
		}
		var extra map[string]any
		selftestBad := false
		if *selftest != "" && len(ids) == 1 {
			// the both-ways self-test of this property's rules ran on scratch copies; its counts belong to the evidence
			extra = map[string]any{}
			var st map[string]any
			if b, e := os.ReadFile(*selftest); e == nil && json.Unmarshal(b, &st) == nil && st["property"] == id {
				for _, k := range []string{"mutants_fired", "mutants_total", "benign_silent", "benign_total", "problems", "details"} {
					extra["selftest_"+k] = st[k]
				}
				if ps, ok := st["problems"].([]any); ok && len(ps) > 0 {
					selftestBad = true
				}
			} else {
				extra["selftest_problems"] = []string{"self-test result missing or unreadable: " + *selftest}
				selftestBad = true
			}
		}
		cd := r.Emit(p, *out, *tier, seed, known, fixed, wall, extra)
		if cd == 0 && selftestBad {
			// the checker failed its own both-ways test: not a violation by canopy, so no VIOLATION line, but not a pass either
			fmt.Println("SELFTEST FAILED: see selftest_problems in the evidence file (the checker, not canopy, is at fault)")
			cd = 2
		}
		if cd > code {
			code = cd
		}
	}
	os.Exit(code)
}

func firstLine(s string) string {
	if i := strings.Index(s, "\n"); i >= 0 {
		return s[:i]
	}
	return s
}

func maxInt(a, b int) int {
	if a > b {
		return a
	}
	return b
}
