package main

import (
	"fmt"
	"go/token"
	"go/types"
	"os"
	"sort"
	"strings"

	"golang.org/x/tools/go/ssa"
)

// ctx is handed to every property's rule function.
type ctx struct {
	p   *Prog
	r   *Rep
	thr bool
}

// fn resolves an anchor; an unresolved anchor is reported as undecided.
func (c *ctx) fn(spec string) *ssa.Function {
	f := c.p.Fn(spec)
	if f == nil || len(f.Blocks) == 0 {
		c.r.Anchor(false, spec)
		return nil
	}
	return f
}

// fnQuiet resolves without reporting.
func (c *ctx) fnQuiet(spec string) *ssa.Function { return c.p.Fn(spec) }

func (c *ctx) field(short, typ, field string) *types.Var {
	v := c.p.Field(short, typ, field)
	if v == nil {
		c.r.Anchor(false, short+"."+typ+"."+field)
	}
	return v
}

// ---------------------------------------------------------------------------------------------
// event helpers

// evSet maps event names to the functions whose calls are that event.
type evSet map[string][]*ssa.Function

// evCalls builds an Event classifier from an evSet (calls and defers).
func evCalls(evs evSet, extra ...func(in ssa.Instruction) string) func(in ssa.Instruction) string {
	names := make([]string, 0, len(evs))
	for n := range evs {
		names = append(names, n)
	}
	sort.Strings(names)
	return func(in ssa.Instruction) string {
		for _, x := range extra {
			if n := x(in); n != "" {
				return n
			}
		}
		if _, isGo := in.(*ssa.Go); isGo {
			return ""
		}
		cc := callCommon(in)
		if cc == nil {
			return ""
		}
		for _, n := range names {
			for _, f := range evs[n] {
				if callIs(cc, f) {
					return n
				}
			}
		}
		return ""
	}
}

// need evaluates requirements in a state. Each requirement is a disjunction "a|b|c" of literals:
//
//	EV.ok        the last call of event EV returned a nil error (we are on its ok-edge)
//	EV.fail      the last call of event EV returned a non-nil error
//	EV#i=T / =F  result #i of the last call of EV is true(nil) / false(non-nil)
//	@atom=T / =F the rule-named atom is known true / false
//	seen:EV      EV happened on this path;  !seen:EV  it did not
//	deferred:EV  EV is registered to run at exit
//
// It returns "" if every requirement holds, otherwise the first that does not.
func need(e *pathEngine, st *PState, errIdxOf map[string]int, reqs ...string) string {
	if e != nil {
		// error-result indices observed at the call sites themselves take precedence
		m := map[string]int{}
		for k, v := range errIdxOf {
			m[k] = v
		}
		for k, v := range e.evErr {
			m[k] = v
		}
		errIdxOf = m
	}
	for _, r := range reqs {
		ok := false
		for _, lit := range strings.Split(r, "|") {
			if evalLit(st, errIdxOf, strings.TrimSpace(lit)) {
				ok = true
				break
			}
		}
		if !ok {
			return "requirement not established on this path: " + r
		}
	}
	return ""
}

func evalLit(st *PState, errIdxOf map[string]int, lit string) bool {
	switch {
	case strings.HasPrefix(lit, "@"):
		name, want := splitEq(lit[1:])
		return st.Fact(name) == want
	case strings.HasPrefix(lit, "seen:"):
		return st.Seen(lit[5:]) > 0
	case strings.HasPrefix(lit, "!seen:"):
		return st.Seen(lit[6:]) == 0
	case strings.HasPrefix(lit, "deferred:"):
		return st.Deferred(lit[9:])
	case strings.HasSuffix(lit, ".ok"):
		ev := strings.TrimSuffix(lit, ".ok")
		idx, ok := errIdxOf[ev]
		if !ok {
			idx = 0
		}
		return st.Seen(ev) > 0 && st.Res(ev, idx) == True
	case strings.HasSuffix(lit, ".fail"):
		ev := strings.TrimSuffix(lit, ".fail")
		idx, ok := errIdxOf[ev]
		if !ok {
			idx = 0
		}
		return st.Seen(ev) > 0 && st.Res(ev, idx) == False
	case strings.Contains(lit, "#"):
		i := strings.Index(lit, "#")
		ev := lit[:i]
		rest, want := splitEq(lit[i+1:])
		var idx int
		fmt.Sscanf(rest, "%d", &idx)
		return st.Seen(ev) > 0 && st.Res(ev, idx) == want
	}
	return false
}

func splitEq(s string) (string, Tri) {
	i := strings.LastIndex(s, "=")
	if i < 0 {
		return s, True
	}
	if s[i+1:] == "F" {
		return s[:i], False
	}
	return s[:i], True
}

// errIdxMap computes for each event the index of the error result of its (first) function.
func errIdxMap(evs evSet) map[string]int {
	m := map[string]int{}
	for n, fs := range evs {
		for _, f := range fs {
			if f != nil {
				if i := errIdx(f); i >= 0 {
					m[n] = i
				}
				break
			}
		}
	}
	return m
}

// ---------------------------------------------------------------------------------------------
// a compact way to state the most common rule: "in F, every <target> is reached only after ..."

type mptSpec struct {
	rule      string // construct prefix for obligation keys
	fn        *ssa.Function
	events    evSet
	extraEv   func(in ssa.Instruction) string
	atom      func(v ssa.Value) (string, bool)
	kill      func(in ssa.Instruction) []string
	resets    map[string][]string
	inline    func(f *ssa.Function) bool
	target    func(in ssa.Instruction, st *PState, e *pathEngine) string
	reqs      func(label string) []string                                              // requirements per target label
	check     func(label string, in ssa.Instruction, st *PState, e *pathEngine) string // custom requirement (instead of reqs)
	desc      string                                                                   // description of the custom requirement
	minTarget int                                                                      // minimal number of distinct target instructions (floor)
}

// autoInline makes path rules indifferent to "extract helper" refactorings: a transparent helper (newfn.go: a function
// that did not exist on the reference tree and has a single call site) that is not itself an event of the rule and whose
// body (through at most two more levels of static calls) contains an event or a target site of the rule is analysed in
// place, with its parameters bound to the arguments and its results to the call (path.go maybeInline). The rule's own
// inline predicate, if any, is honoured as well.
func (c *ctx) autoInline(s mptSpec, pr *PathRule) func(*ssa.Function) bool {
	isEventFn := map[*ssa.Function]bool{}
	for _, fs := range s.events {
		for _, f := range fs {
			isEventFn[origin(f)] = true
		}
	}
	interesting := func(in ssa.Instruction) (yes bool) {
		defer func() {
			if recover() != nil {
				yes = false
			}
		}()
		if pr.Event != nil && pr.Event(in) != "" {
			return true
		}
		if _, isRet := in.(*ssa.Return); !isRet && s.target != nil && s.target(in, nil, nil) != "" {
			return true
		}
		if v, ok := in.(ssa.Value); ok && pr.Atom != nil {
			if n, _ := pr.Atom(v); n != "" {
				return true
			}
		}
		return false
	}
	memo := map[*ssa.Function]int{} // 0 unknown, 1 yes, 2 no
	var contains func(f *ssa.Function, depth int) bool
	contains = func(f *ssa.Function, depth int) bool {
		f = origin(f)
		if m := memo[f]; m != 0 {
			return m == 1
		}
		if len(f.Blocks) == 0 || len(f.Blocks) > 120 || !inCanopy(f) || isEventFn[f] {
			memo[f] = 2
			return false
		}
		memo[f] = 2 // cut recursion
		found := false
		for _, b := range f.Blocks {
			for _, in := range b.Instrs {
				if interesting(in) {
					found = true
				} else if depth > 0 {
					if call, ok := in.(*ssa.Call); ok {
						if sc := call.Common().StaticCallee(); sc != nil && sc != f && contains(sc, depth-1) {
							found = true
						}
					}
				}
				if found {
					break
				}
			}
			if found {
				break
			}
		}
		if found {
			memo[f] = 1
		}
		return found
	}
	return func(g *ssa.Function) bool {
		if s.inline != nil && s.inline(g) {
			return true
		}
		g = origin(g)
		if g == origin(s.fn) || isEventFn[g] || isTestFile(c.p, g.Pos()) {
			return false
		}
		// only helpers that did not exist on the reference tree (newfn.go): known functions keep the meaning the rules
		// were written against
		return (c.p.transparentSite(g) != nil || c.p.isNewNamed(g)) && contains(g, 2)
	}
}

// mpt runs the spec and records one obligation per target label (plus undecided reasons).
func (c *ctx) mpt(s mptSpec) *PathResult {
	if s.fn == nil {
		return nil
	}
	for n, fs := range s.events {
		for _, f := range fs {
			if f == nil {
				c.r.Unk(s.rule+"/event/"+n, "?", "unresolved-anchor: a function of event "+n+" does not exist")
				return nil
			}
		}
	}
	eidx := errIdxMap(s.events)
	var extra []func(in ssa.Instruction) string
	if s.extraEv != nil {
		extra = append(extra, s.extraEv)
	}
	pr := &PathRule{Fn: s.fn, Event: evCalls(s.events, extra...), Atom: s.atom, KillAtoms: s.kill, Resets: s.resets, Target: s.target}
	pr.Inline = c.autoInline(s, pr)
	pr.At = func(label string, in ssa.Instruction, st *PState, e *pathEngine) string {
		if s.check != nil {
			return s.check(label, in, st, e)
		}
		return need(e, st, eidx, s.reqs(label)...)
	}
	if s.reqs == nil {
		s.reqs = func(string) []string { return []string{s.desc} }
	}
	res := RunPath(c.p, pr)
	c.r.Analysed["path_rules"]++
	c.r.Analysed["path_blocks_visited"] += res.Blocks
	c.r.Analysed["path_target_states"] += res.States
	if res.MaxStates > c.r.Analysed["path_max_states_per_block"] {
		c.r.Analysed["path_max_states_per_block"] = res.MaxStates
	}
	if os.Getenv("CV_PATHSTATS") != "" {
		fmt.Fprintf(os.Stderr, "pathstats %s %s maxstates=%d blocks=%d\n", s.rule, fnName(s.fn), res.MaxStates, res.Blocks)
	}
	where := fnName(s.fn)
	for _, u := range res.Undecided {
		c.r.Unk(s.rule+"/"+where+"/analysis", c.p.Pos(s.fn.Pos()), u)
	}
	if res.Targets < s.minTarget || res.Targets == 0 {
		c.r.Unk(s.rule+"/"+where+"/targets", c.p.Pos(s.fn.Pos()), fmt.Sprintf("vacuous: %d target sites found in %s, at least %d expected", res.Targets, where, max(1, s.minTarget)))
	}
	badBy := map[string][]PathWitness{}
	for _, b := range res.Bad {
		badBy[b.Label] = append(badBy[b.Label], b)
	}
	labels := make([]string, 0, len(res.Labels))
	for l := range res.Labels {
		labels = append(labels, l)
	}
	sort.Strings(labels)
	for _, l := range labels {
		reqs := strings.Join(s.reqs(l), " ; ")
		if ws := badBy[l]; len(ws) > 0 {
			for _, w := range ws {
				c.r.Bad(s.rule+"/"+where+"/"+l, c.p.Pos(w.Pos), fmt.Sprintf("%s [path: %s]", w.Reason, w.Trace))
			}
		} else {
			c.r.OK(s.rule+"/"+where+"/"+l, c.p.Pos(s.fn.Pos()), fmt.Sprintf("%d site(s), all paths: %s", res.Labels[l], reqs))
		}
	}
	return res
}

// tgtCall is a Target that labels calls to any of the named functions.
func tgtCall(label string, fs ...*ssa.Function) func(in ssa.Instruction, st *PState, e *pathEngine) string {
	return func(in ssa.Instruction, st *PState, e *pathEngine) string {
		if _, isDefer := in.(*ssa.Defer); isDefer {
			return ""
		}
		if cc := callCommon(in); cc != nil && callIsAny(cc, fs...) != nil {
			return label
		}
		return ""
	}
}

// tgtOkReturn labels every Return on which the function's error result is not known to be non-nil
// (i.e. the returns on which the caller may see success).
func tgtOkReturn(label string) func(in ssa.Instruction, st *PState, e *pathEngine) string {
	return func(in ssa.Instruction, st *PState, e *pathEngine) string {
		ret, ok := in.(*ssa.Return)
		if !ok || in.Parent() != e.r.Fn {
			return ""
		}
		idx := errIdx(e.r.Fn)
		if idx < 0 {
			return label
		}
		if e.RetNil(ret, idx, st) == False {
			return ""
		}
		return label
	}
}

// tgtReturnWhere labels returns whose result #idx is known/possibly "positive": for a bool result
// possibly true, for a nil-able result possibly non-nil.
func tgtReturnVal(label string, idx int, wantTrue bool) func(in ssa.Instruction, st *PState, e *pathEngine) string {
	return func(in ssa.Instruction, st *PState, e *pathEngine) string {
		ret, ok := in.(*ssa.Return)
		if !ok || in.Parent() != e.r.Fn || idx >= len(ret.Results) {
			return ""
		}
		k := e.known(st, ret.Results[idx])
		if isBoolType(ret.Results[idx].Type()) {
			if (wantTrue && k == False) || (!wantTrue && k == True) {
				return ""
			}
			return label
		}
		// nil-able: wantTrue means "non-nil result"
		if (wantTrue && k == True) || (!wantTrue && k == False) {
			return ""
		}
		return label
	}
}

func tgtAny(ts ...func(in ssa.Instruction, st *PState, e *pathEngine) string) func(in ssa.Instruction, st *PState, e *pathEngine) string {
	return func(in ssa.Instruction, st *PState, e *pathEngine) string {
		for _, t := range ts {
			if l := t(in, st, e); l != "" {
				return l
			}
		}
		return ""
	}
}

// ---------------------------------------------------------------------------------------------
// atom helpers

// paramAtom names a parameter (or a free variable capturing it) of the function.
func paramAtom(name string) func(v ssa.Value) (string, bool) {
	return func(v ssa.Value) (string, bool) {
		switch x := v.(type) {
		case *ssa.Parameter:
			if x.Name() == name {
				return name, false
			}
		case *ssa.FreeVar:
			if x.Name() == name {
				return name, false
			}
		}
		return "", false
	}
}

func atoms(fs ...func(v ssa.Value) (string, bool)) func(v ssa.Value) (string, bool) {
	return func(v ssa.Value) (string, bool) {
		for _, f := range fs {
			if f == nil {
				continue
			}
			if n, neg := f(v); n != "" {
				return n, neg
			}
		}
		return "", false
	}
}

// fieldNilAtom names the load of field fv (any base) so that `x.f == nil` conditions become facts.
func fieldLoadAtom(name string, fv *types.Var) func(v ssa.Value) (string, bool) {
	return func(v ssa.Value) (string, bool) {
		if f, _ := loadedField(v); f != nil && f == fv {
			return name, false
		}
		return "", false
	}
}

// cmpAtom names a comparison `<load of field chain ending in fv> OP <const named c>`: the atom is
// true when the operands are EQUAL (neg is set for != so that the engine flips edges itself).
func eqConstAtom(name string, fv *types.Var, constObj types.Object) func(v ssa.Value) (string, bool) {
	return func(v ssa.Value) (string, bool) {
		b, ok := v.(*ssa.BinOp)
		if !ok || (b.Op != token.EQL && b.Op != token.NEQ) {
			return "", false
		}
		match := func(x, y ssa.Value) bool {
			f, _ := loadedField(x)
			if f == nil || f != fv {
				return false
			}
			c, ok := y.(*ssa.Const)
			if !ok || c.Value == nil {
				return false
			}
			if cv, ok := constObj.(*types.Const); ok {
				return c.Value.ExactString() == cv.Val().ExactString() && types.Identical(c.Type(), cv.Type())
			}
			return false
		}
		if match(b.X, b.Y) || match(b.Y, b.X) {
			return name, b.Op == token.NEQ
		}
		return "", false
	}
}

// storeFieldEvent names stores into a struct field as events.
func storeFieldEvent(name string, fv *types.Var) func(in ssa.Instruction) string {
	return func(in ssa.Instruction) string {
		if f, _, _ := storeField(in); f != nil && f == fv {
			return name
		}
		return ""
	}
}

func firstOf(fs ...func(in ssa.Instruction) string) func(in ssa.Instruction) string {
	return func(in ssa.Instruction) string {
		for _, f := range fs {
			if f == nil {
				continue
			}
			if n := f(in); n != "" {
				return n
			}
		}
		return ""
	}
}

// ---------------------------------------------------------------------------------------------
// comparison atoms named by the normalised paths of their operands

type cmpSpec struct {
	name string
	op   token.Token            // EQL (also matches NEQ, negated) or an ordering operator (exact, operands in order)
	x, y func(path string) bool // predicates on the operand paths
}

func pathIs(s string) func(string) bool { return func(p string) bool { return p == s } }
func pathHasSuffix(s string) func(string) bool {
	return func(p string) bool { return strings.HasSuffix(p, s) }
}
func pathContains(s string) func(string) bool {
	return func(p string) bool { return strings.Contains(p, s) }
}
func pathAny() func(string) bool { return func(string) bool { return true } }

// cmpAtoms builds an Atom function from comparison specs. For op EQL the atom means "operands are
// equal" (a != comparison is reported negated, operands may be swapped); for an ordering operator
// the atom means "x op y" and every equivalent spelling is recognised (y swapped-op x; the complementary operator is
// reported negated).
func cmpAtoms(p *Prog, specs ...cmpSpec) func(v ssa.Value) (string, bool) {
	return func(v ssa.Value) (string, bool) {
		b, ok := v.(*ssa.BinOp)
		if !ok {
			return "", false
		}
		var px, py string
		got := false
		// "x == 0" has ordering spellings for non-negative x: x < 1, x <= 0, !(x > 0), !(x >= 1) and the mirrored forms
		if zx, isZero, ok := zeroTest(b); ok {
			pz := p.path(zx)
			for _, s := range specs {
				if s.op != token.EQL && s.op != token.NEQ {
					continue
				}
				if (s.x(pz) && s.y("0")) || (s.y(pz) && s.x("0")) {
					if s.op == token.EQL {
						return s.name, !isZero
					}
					return s.name, isZero
				}
			}
		}
		for _, s := range specs {
			switch s.op {
			case token.EQL:
				if b.Op != token.EQL && b.Op != token.NEQ {
					continue
				}
				if !got {
					px, py, got = p.path(b.X), p.path(b.Y), true
				}
				if (s.x(px) && s.y(py)) || (s.x(py) && s.y(px)) {
					return s.name, b.Op == token.NEQ
				}
			case token.NEQ:
				if b.Op != token.EQL && b.Op != token.NEQ {
					continue
				}
				if !got {
					px, py, got = p.path(b.X), p.path(b.Y), true
				}
				if (s.x(px) && s.y(py)) || (s.x(py) && s.y(px)) {
					return s.name, b.Op == token.EQL
				}
			default:
				if !isOrdering(b.Op) {
					continue
				}
				if !got {
					px, py, got = p.path(b.X), p.path(b.Y), true
				}
				if m, neg := ordMatch(b.Op, px, py, s.op, s.x, s.y); m {
					return s.name, neg
				}
			}
		}
		return "", false
	}
}

func isOrdering(op token.Token) bool {
	return op == token.GTR || op == token.LSS || op == token.GEQ || op == token.LEQ
}

func swapOrd(op token.Token) token.Token {
	switch op {
	case token.GTR:
		return token.LSS
	case token.LSS:
		return token.GTR
	case token.GEQ:
		return token.LEQ
	case token.LEQ:
		return token.GEQ
	}
	return op
}

func negOrd(op token.Token) token.Token {
	switch op {
	case token.GTR:
		return token.LEQ
	case token.LSS:
		return token.GEQ
	case token.GEQ:
		return token.LSS
	case token.LEQ:
		return token.GTR
	}
	return op
}

// ordMatch decides whether the integer comparison "px op py" is the wanted comparison "x want y" (match, neg=false)
// or its exact negation (match, neg=true), in any of the four spellings (a>b, b<a, !(a<=b), !(b>=a)).
func ordMatch(op token.Token, px, py string, want token.Token, x, y func(string) bool) (bool, bool) {
	if op == want && x(px) && y(py) {
		return true, false
	}
	if swapOrd(op) == want && x(py) && y(px) {
		return true, false
	}
	if negOrd(op) == want && x(px) && y(py) {
		return true, true
	}
	if swapOrd(negOrd(op)) == want && x(py) && y(px) {
		return true, true
	}
	return false, false
}

// ordAtom names an integer comparison "x want y" given predicates on the operand VALUES; every spelling is recognised
// (operands swapped with the mirrored operator; the complementary operator reported negated).
func ordAtom(name string, want token.Token, x, y func(ssa.Value) bool) func(v ssa.Value) (string, bool) {
	return func(v ssa.Value) (string, bool) {
		b, ok := v.(*ssa.BinOp)
		if !ok || !isOrdering(b.Op) {
			return "", false
		}
		if m, neg := ordMatchV(b, want, x, y); m {
			return name, neg
		}
		return "", false
	}
}

func ordMatchV(b *ssa.BinOp, want token.Token, x, y func(ssa.Value) bool) (bool, bool) {
	op := b.Op
	switch {
	case op == want && x(b.X) && y(b.Y):
		return true, false
	case swapOrd(op) == want && x(b.Y) && y(b.X):
		return true, false
	case negOrd(op) == want && x(b.X) && y(b.Y):
		return true, true
	case swapOrd(negOrd(op)) == want && x(b.Y) && y(b.X):
		return true, true
	}
	return false, false
}

// firstAtom tries atom functions in order.
func firstAtom(fs ...func(v ssa.Value) (string, bool)) func(v ssa.Value) (string, bool) {
	return func(v ssa.Value) (string, bool) {
		for _, f := range fs {
			if f == nil {
				continue
			}
			if n, neg := f(v); n != "" {
				return n, neg
			}
		}
		return "", false
	}
}

// zeroTest recognises an ordering comparison of a non-negative value (unsigned integer, len, cap) with the constants 0 or
// 1 that is equivalent to a test for zero: it returns the value and whether the comparison is TRUE exactly when it is zero.
func zeroTest(b *ssa.BinOp) (ssa.Value, bool, bool) {
	if !isOrdering(b.Op) {
		return nil, false, false
	}
	constOf := func(v ssa.Value) (string, bool) {
		if c, ok := v.(*ssa.Const); ok && c.Value != nil {
			return c.Value.ExactString(), true
		}
		return "", false
	}
	nonNeg := func(v ssa.Value) bool {
		if call, ok := v.(*ssa.Call); ok {
			if bi, ok := call.Common().Value.(*ssa.Builtin); ok && (bi.Name() == "len" || bi.Name() == "cap") {
				return true
			}
		}
		if bt, ok := v.Type().Underlying().(*types.Basic); ok && bt.Info()&types.IsUnsigned != 0 {
			return true
		}
		return false
	}
	op, x, y := b.Op, b.X, b.Y
	if _, isC := constOf(x); isC {
		op, x, y = swapOrd(op), y, x // constant on the right
	}
	k, isC := constOf(y)
	if !isC || !nonNeg(x) {
		return nil, false, false
	}
	switch {
	case op == token.LSS && k == "1", op == token.LEQ && k == "0":
		return x, true, true // x < 1, x <= 0  <=> x == 0
	case op == token.GTR && k == "0", op == token.GEQ && k == "1":
		return x, false, true // x > 0, x >= 1 <=> x != 0
	}
	return nil, false, false
}
