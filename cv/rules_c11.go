package main

import (
	"fmt"
	"go/token"
	"go/types"
	"regexp"
	"sort"
	"strings"

	"golang.org/x/tools/go/ssa"
)

func init() { register("C11", c11) }

// equalsCovers checks that T.Equals mentions every data field of T on both operands.
func (c *ctx) equalsCovers(rule string, short, typ string, allowed map[string]string) {
	nt := c.p.Named(short, typ)
	f := c.fnQuiet(short + ".(*" + typ + ").Equals")
	if nt == nil || f == nil {
		c.r.Anchor(false, short+".(*"+typ+").Equals")
		return
	}
	sel := c.p.selectorsOn(f, nt)
	have := map[string]bool{}
	for fld, n := range sel {
		if n >= 2 {
			have[fld] = true
		}
	}
	c.coverCheck(rule, typ+".Equals", nt, protoFields(nt), have, allowed, c.p.Pos(f.Pos()))
}

// C11 — Block portability.
func c11(c *ctx) {
	r := c.r
	r.Explain = "Static decision of the shared-derivation structure: (R1) proposer and replica compute header and certificate results through the same two functions; (R2) every field of the header ApplyBlock builds derives from state, the execution results, the previous block or the four preset inputs, and every header field is set; " +
		"(R3) replica acceptance is dominated by 'no failed transaction', header-hash equality and certificate-result equality; (R4) the Equals methods of the certified structures compare every field; (R5) archive bytes: served blocks re-marshal indexed transactions, which is sound only because non-canonical encodings are rejected (shares C06.R5); (R6) transactions executed inside the proposer's throw-away oversize wrap are never recorded as block content; (R7) and their effects do not survive in the FSM caches into EndBlock (shares C07.R6)."
	r.NotCovered = []string{"mempool policy (which valid transactions a proposer picks)", "root-chain data availability for nested chains", "that two executions of ApplyBlock give equal bytes (C03)", "governance-vote configuration equality across nodes (property's own premise)"}
	r.Trusted = []string{"protobuf deterministic marshalling", "C03 (determinism) and C06.R5 (canonical encoding)"}

	applyBlock := c.fn("fsm.(*StateMachine).ApplyBlock")
	applyTxs := c.fn("fsm.(*StateMachine).ApplyTransactions")
	newCertResults := c.fn("controller.(*Controller).NewCertificateResults")
	checkMempool := c.fn("controller.(*Mempool).CheckMempool")
	applyAndValidate := c.fn("controller.(*Controller).ApplyAndValidateBlock")
	validateProposal := c.fn("controller.(*Controller).ValidateProposal")
	if applyBlock == nil || applyTxs == nil || newCertResults == nil || checkMempool == nil || applyAndValidate == nil || validateProposal == nil {
		return
	}

	// ------------------------------------------------------------------ R1
	r.Rule("R1", "WHO", "same functions on both sides: ApplyBlock is called only by the proposer path (Mempool.CheckMempool) and the replica/commit/sync path (ApplyAndValidateBlock); NewCertificateResults only by CheckMempool and ValidateProposal", 4)
	c.whoCalls("R1", applyBlock, allow{checkMempool: "proposer: builds the proposal block", applyAndValidate: "replica / commit / sync: validates the block"})
	c.whoCalls("R1", newCertResults, allow{checkMempool: "proposer: builds the certificate results", validateProposal: "replica: recomputes them for comparison"})
	for _, cs := range callsIn(checkMempool, true, applyBlock) {
		b, ok := constBoolArg(cs, 2)
		r.Check(ok && b, "R1/CheckMempool/allowOversize", c.p.Pos(cs.Pos()), "proposer may probe oversize transactions", "the proposer path no longer calls ApplyBlock with allowOversize=true")
	}
	for _, cs := range callsIn(applyAndValidate, true, applyBlock) {
		b, ok := constBoolArg(cs, 2)
		r.Check(ok && !b, "R1/ApplyAndValidateBlock/allowOversize", c.p.Pos(cs.Pos()), "replicas reject oversize blocks", "the replica path calls ApplyBlock with allowOversize=true: an oversize block would validate")
	}

	// ------------------------------------------------------------------ R2
	r.Rule("R2", "FLOW+COVER", "ApplyBlock's header literal sets every BlockHeader field (Hash via SetHash) and each value derives only from the state machine, the execution results, the previous block, the validator roots or the preset inputs b.BlockHeader.{Time,ProposerAddress,Vdf,LastQuorumCertificate}; b.Transactions is replaced by the successful transactions first", 16)
	hdrT := c.p.Named("lib", "BlockHeader")
	setHash := c.fn("lib.(*BlockHeader).SetHash")
	if hdrT != nil && setHash != nil {
		lits := c.p.compositeLits(applyBlock, hdrT)
		if len(lits) != 1 {
			r.Unk("R2/ApplyBlock/header-literal", c.p.Pos(applyBlock.Pos()), fmt.Sprintf("expected one BlockHeader literal in ApplyBlock, found %d", len(lits)))
		} else {
			have := keysOf(lits[0])
			c.coverCheck("R2", "ApplyBlock.header", hdrT, protoFields(hdrT), have, map[string]string{}, c.p.Pos(applyBlock.Pos()))
		}
		// provenance of each stored field value
		allowedRoots := []string{"$0.", "$0", "$2.BlockHeader.Time", "$2.BlockHeader.ProposerAddress", "$2.BlockHeader.Vdf", "$2.BlockHeader.LastQuorumCertificate", "$results", "nil", "fsm.nonEmptyHash("}
		var hdrAlloc ssa.Value
		instrs(applyBlock, func(in ssa.Instruction) {
			if a, ok := in.(*ssa.Alloc); ok {
				if nt := namedOf(a.Type()); nt != nil && nt.Obj() == hdrT.Obj() {
					hdrAlloc = a
				}
			}
		})
		if hdrAlloc == nil {
			r.Unk("R2/ApplyBlock/header-alloc", c.p.Pos(applyBlock.Pos()), "could not find the BlockHeader allocation in ApplyBlock")
		} else {
			st := hdrT.Underlying().(*types.Struct)
			for i := 0; i < st.NumFields(); i++ {
				fv := st.Field(i)
				v := litField(hdrAlloc, fv)
				if v == nil {
					continue
				}
				p := resultsCellRe.ReplaceAllString(c.p.path(v), "$results")
				ok := derivesOnlyFrom(p, allowedRoots)
				r.Check(ok, "R2/ApplyBlock/provenance/"+fv.Name(), c.p.Pos(applyBlock.Pos()), fv.Name()+" = "+short(p), "header field "+fv.Name()+" is computed from "+p+", which reaches beyond the state, the results, the previous block and the four preset header inputs: replicas would compute another header")
			}
		}
		// Hash is set by SetHash on that header, and b.Transactions = r.Txs precedes it
		n := 0
		for _, cs := range callsIn(applyBlock, false, setHash) {
			n++
			_ = cs
		}
		r.Check(n == 1, "R2/ApplyBlock/SetHash", c.p.Pos(applyBlock.Pos()), "hash computed by SetHash", "ApplyBlock no longer computes the header hash with SetHash exactly once")
		txF := c.p.Field("lib", "Block", "Transactions")
		okTx := false
		if txF != nil {
			for _, stx := range storesTo(applyBlock, txF) {
				if strings.HasSuffix(c.p.path(stx.Val), ".Txs") {
					okTx = true
				}
			}
		}
		r.Check(okTx, "R2/ApplyBlock/successful-txs-only", c.p.Pos(applyBlock.Pos()), "b.Transactions = r.Txs", "ApplyBlock no longer replaces the block's transactions by the successfully applied ones (r.Txs): a proposer's block would carry failed transactions")
	}

	// the index stamped on a transaction result is the number of transactions already included, which is the same on the
	// proposer (who drops failing transactions) and on the replica (who sees only the included ones)
	if applyTx := c.fn("fsm.(*StateMachine).ApplyTransaction"); applyTx != nil {
		for _, cs := range callsIn(applyTxs, false, applyTx) {
			p := c.p.path(argOf(cs, 0))
			r.Check(p == "$3.Count", "R2/ApplyTransactions/result-index", c.p.Pos(cs.Pos()), "TxResult.Index = number of included transactions (r.Count)", "ApplyTransaction is given index "+p+" instead of the count of included transactions: a proposer that dropped a failing transaction stamps indices no replica can reproduce (different transaction root)")
		}
	}

	// ------------------------------------------------------------------ R3
	r.Rule("R3", "MPT", "replica acceptance: ApplyAndValidateBlock returns a result only after ApplyBlock ok, len(results.Failed)==0 and bytes.Equal(recomputed hash, candidate hash); ValidateProposal only after ApplyAndValidateBlock ok and qc.Results.Equals(recomputed results)", 2)
	bytesEqual := lookupStd(c.p, "bytes", "Equal")
	certEquals := c.fn("lib.(*CertificateResult).Equals")
	setHashFn := c.fn("lib.(*BlockHeader).SetHash")
	casl := c.fn("controller.(*Controller).CheckAndSetLastCertificate")
	if bytesEqual != nil && certEquals != nil && setHashFn != nil && casl != nil {
		c.mpt(mptSpec{
			rule: "R3", fn: applyAndValidate, events: evSet{"ApplyBlock": {applyBlock}, "SetHash": {setHashFn}, "CheckAndSetLastCertificate": {casl}},
			extraEv: func(in ssa.Instruction) string {
				if cc := callCommon(in); cc != nil && callIs(cc, bytesEqual) {
					a, b := c.p.path(cc.Args[0]), c.p.path(cc.Args[1])
					if (strings.HasSuffix(a, ".SetHash()#0") && b == "$1.BlockHeader.Hash") || (strings.HasSuffix(b, ".SetHash()#0") && a == "$1.BlockHeader.Hash") {
						return "hashEqual"
					}
				}
				return ""
			},
			atom:   cmpAtoms(c.p, cmpSpec{"anyFailed", token.NEQ, func(p string) bool { return strings.HasPrefix(p, "len(") && strings.HasSuffix(p, ".Failed)") }, pathIs("0")}),
			target: tgtOkReturn("ok-return"),
			reqs: func(string) []string {
				return []string{"CheckAndSetLastCertificate.ok", "ApplyBlock.ok", "@anyFailed=F", "SetHash.ok", "hashEqual#0=T"}
			},
			minTarget: 1,
		})
		// the header hashed is the one ApplyBlock returned for the very block given
		for _, cs := range callsIn(applyAndValidate, false, setHashFn) {
			p := c.p.path(recvOf(cs))
			r.Check(hasSuffix(p, ".ApplyBlock(context.Background(),$1,false)#0") || has(p, ".ApplyBlock(") && hasSuffix(p, "#0"), "R3/ApplyAndValidateBlock/hashed-header", c.p.Pos(cs.Pos()), "hashes the recomputed header", "the hash compared with the candidate is taken from "+p+", not from the header ApplyBlock recomputed")
		}
		c.mpt(mptSpec{
			rule: "R3", fn: validateProposal, events: evSet{"ApplyAndValidateBlock": {applyAndValidate}, "Equals": {certEquals}},
			target: tgtOkReturn("ok-return"),
			reqs:   func(string) []string { return []string{"ApplyAndValidateBlock.ok", "Equals#0=T"} }, minTarget: 1,
		})
		for _, cs := range callsIn(validateProposal, false, certEquals) {
			a, b := c.p.path(recvOf(cs)), c.p.path(argOf(cs, 0))
			r.Check(a == "$2.Results" && has(b, ".NewCertificateResults("), "R3/ValidateProposal/equals-operands", c.p.Pos(cs.Pos()), "certificate results compared with the locally recomputed ones", "ValidateProposal compares "+a+" with "+b+", expected qc.Results against NewCertificateResults(...)")
		}
	}

	// ------------------------------------------------------------------ R4
	r.Rule("R4", "COVER", "Equals is total: CertificateResult.Equals and the Equals of every nested certified structure compare every field", 20)
	c.equalsCovers("R4", "lib", "CertificateResult", map[string]string{})
	for _, t := range []string{"RewardRecipients", "SlashRecipients", "Orders", "LockOrder", "Checkpoint", "DexBatch", "PaymentPercents", "DoubleSigner", "CloseOrder", "DexLimitOrder", "DexLiquidityDeposit", "DexLiquidityWithdraw"} {
		if c.fnQuiet("lib.(*"+t+").Equals") != nil {
			al := map[string]string{}
			if t == "DexBatch" {
				al["ReceiptHash"] = "observed omission (DESIGN F10): the value is bound by the signed ResultsHash but not re-derived by replicas; not needed for portability of honest proposals"
			}
			c.equalsCovers("R4", "lib", t, al)
		}
	}

	// ------------------------------------------------------------------ R5
	r.Rule("R5", "FLOW", "archive bytes: BlockResult.ToBlock re-marshals the indexed transactions; equality with the certified bytes needs canonical transactions, which CheckTx enforces (C06.R5 obligation is re-evaluated here)", 2)
	toBlock := c.fn("lib.(*BlockResult).ToBlock")
	checkTx := c.fn("fsm.(*StateMachine).CheckTx")
	marshal := c.fn("lib.Marshal")
	if toBlock != nil && checkTx != nil && marshal != nil && bytesEqual != nil {
		re := len(callsIn(toBlock, true, marshal)) > 0
		r.Check(re, "R5/ToBlock/re-marshals", c.p.Pos(toBlock.Pos()), "ToBlock re-marshals each indexed transaction", "ToBlock no longer re-marshals transactions (rule needs re-reading)")
		canon := false
		for _, cs := range callsIn(checkTx, false, bytesEqual) {
			a, b := c.p.path(cs.Common().Args[0]), c.p.path(cs.Common().Args[1])
			isM := func(s string) bool {
				return strings.HasPrefix(s, "lib.Marshal(&new(Transaction)") && strings.HasSuffix(s, "#0")
			}
			if (isM(a) && b == "$1") || (isM(b) && a == "$1") {
				canon = true
			}
		}
		r.Check(canon, "R5/CheckTx/canonical-form", c.p.Pos(checkTx.Pos()), "only canonical encodings are executed, so re-marshalling reproduces the certified bytes", "CheckTx accepts non-canonical encodings: the archive (ToBlock) would serve a block whose bytes differ from the certified ones, and it would not re-validate on a fresh node")
	}

	// ------------------------------------------------------------------ R6
	r.Rule("R6", "MPT", "oversize probing leaves no trace in the block: once the throw-away oversize TxnWrap has happened in ApplyTransactions, every later r.Add is flagged oversize (the flag passed is known true on every such path)", 1)
	txnWrap := c.fn("fsm.(*StateMachine).TxnWrap")
	addOK := c.fn("lib.(*ApplyBlockResults).Add")
	if txnWrap != nil && addOK != nil {
		// the oversize wrap is the TxnWrap whose transaction value is discarded (never flushed, never restored explicitly)
		var oversizeWrap ssa.Instruction
		for _, cs := range callsIn(applyTxs, false, txnWrap) {
			v, ok := cs.(ssa.Value)
			if !ok {
				continue
			}
			used := false
			for _, ref := range *v.Referrers() {
				if ex, ok := ref.(*ssa.Extract); ok && ex.Index == 0 && len(*ex.Referrers()) > 0 {
					used = true
				}
			}
			if !used {
				oversizeWrap = cs.(ssa.Instruction)
			}
		}
		if oversizeWrap == nil {
			r.Unk("R6/ApplyTransactions/oversize-wrap", c.p.Pos(applyTxs.Pos()), "could not identify the throw-away oversize TxnWrap (the one whose transaction is discarded)")
		} else {
			c.mpt(mptSpec{
				rule: "R6", fn: applyTxs, events: evSet{},
				extraEv: func(in ssa.Instruction) string {
					if in == oversizeWrap {
						return "OversizeWrap"
					}
					return ""
				},
				target: tgtCall("r.Add", addOK),
				check: func(label string, in ssa.Instruction, st *PState, e *pathEngine) string {
					if st.Seen("OversizeWrap") == 0 {
						return ""
					}
					args := in.(ssa.CallInstruction).Common().Args
					if e.known(st, args[len(args)-1]) == True {
						return ""
					}
					return "a transaction executed inside the throw-away oversize wrap is recorded with oversize=" + c.p.path(args[len(args)-1]) + " (not known true on this path): it would be part of the proposed block although its state changes are discarded"
				},
				desc:      "after the oversize wrap, r.Add(..., oversize) has oversize == true",
				minTarget: 1,
			})
		}
	}

	// ------------------------------------------------------------------ R7
	c.ruleOversizeRolledBack("R7")

	// ------------------------------------------------------------------ R8
	c11sizeMeasure(c)

	// ------------------------------------------------------------------ R9
	c.ruleBlockCacheComplete("R9")

	// ------------------------------------------------------------------ R10
	c.ruleBlockResultsReadOnly("R10")

	// ------------------------------------------------------------------ R11
	c.ruleIndexKeysOrdered("R11")

}

// the named result `r` lives in a cell because of the deferred recover: it holds the fresh results object or nil
var resultsCellRe = regexp.MustCompile(`var\(&new\(ApplyBlockResults\)@t\d+\|nil\)`)

// derivesOnlyFrom: every leaf of the path expression starts with one of the allowed roots.
func derivesOnlyFrom(p string, roots []string) bool {
	// leaves are maximal runs of characters that are not operators / separators
	cur := ""
	var leaves []string
	flush := func() {
		if cur != "" {
			leaves = append(leaves, cur)
			cur = ""
		}
	}
	depthBreak := "(), "
	for _, ch := range p {
		if strings.ContainsRune(depthBreak, ch) {
			flush()
			continue
		}
		cur += string(ch)
	}
	flush()
	for _, l := range leaves {
		if l == "+" || l == "-" || l == "*" || l == "|" || strings.HasPrefix(l, "phi") {
			continue
		}
		if _, err := fmt.Sscanf(l, "%d", new(int)); err == nil {
			continue
		}
		ok := false
		for _, r := range roots {
			if strings.HasPrefix(l, r) || strings.HasPrefix(l, "&"+r) {
				ok = true
			}
		}
		// method names / package functions appearing as "pkg.Func" leaves after a '(' split
		if !ok && (strings.HasPrefix(l, "fsm.") || strings.HasPrefix(l, "lib.") || strings.HasPrefix(l, "uint64") || strings.HasPrefix(l, "#")) {
			ok = true
		}
		if !ok && strings.HasPrefix(l, ".") { // continuation of a call result: .Field / .Method
			ok = true
		}
		if !ok && strings.HasPrefix(l, "new") {
			ok = true
		}
		if !ok {
			return false
		}
	}
	return true
}

func short(s string) string {
	if len(s) > 90 {
		return s[:90] + "…"
	}
	return s
}

var _ = sort.Strings

// sumLeaves decomposes an additive size expression into its leaves: len(x) terms, field loads and anything else.
// Loop accumulators (phis) are followed through their incoming edges; the zero constant is dropped.
func sumLeaves(p *Prog, v ssa.Value) []ssa.Value {
	var out []ssa.Value
	seen := map[ssa.Value]bool{}
	var walk func(x ssa.Value)
	walk = func(x ssa.Value) {
		if seen[x] {
			return
		}
		seen[x] = true
		switch y := x.(type) {
		case *ssa.Convert:
			walk(y.X)
		case *ssa.ChangeType:
			walk(y.X)
		case *ssa.Phi:
			for _, e := range y.Edges {
				walk(e)
			}
		case *ssa.BinOp:
			if y.Op == token.ADD {
				walk(y.X)
				walk(y.Y)
				return
			}
			out = append(out, x)
		case *ssa.Const:
			if y.Value != nil && y.Value.ExactString() == "0" {
				return
			}
			out = append(out, x)
		default:
			out = append(out, x)
		}
	}
	walk(v)
	return out
}

// txElem reports whether v is a []byte element loaded from a [][]byte (a transaction of a transaction list).
func txElem(v ssa.Value) bool {
	u, ok := v.(*ssa.UnOp)
	if !ok || u.Op != token.MUL {
		return false
	}
	ia, ok := u.X.(*ssa.IndexAddr)
	if !ok {
		return false
	}
	sl, ok := ia.X.Type().Underlying().(*types.Slice)
	if !ok {
		return false
	}
	in, ok := sl.Elem().Underlying().(*types.Slice)
	return ok && isByte(in.Elem())
}

// lenOfTx reports whether v is len(e) with e a transaction: an element of a [][]byte, or a []byte parameter that every
// non-test caller fills with such an element.
func lenOfTx(p *Prog, v ssa.Value) (ssa.Value, bool) {
	call, ok := v.(*ssa.Call)
	if !ok {
		return nil, false
	}
	b, ok := call.Call.Value.(*ssa.Builtin)
	if !ok || b.Name() != "len" || len(call.Call.Args) != 1 {
		return nil, false
	}
	arg := call.Call.Args[0]
	if sl, ok := arg.Type().Underlying().(*types.Slice); !ok || !isByte(sl.Elem()) {
		return nil, false
	}
	if txElem(arg) {
		return arg, true
	}
	if pa, ok := arg.(*ssa.Parameter); ok {
		f := pa.Parent()
		idx := -1
		for i, q := range f.Params {
			if q == pa {
				idx = i
			}
		}
		n := p.CG.Nodes[f]
		if idx < 0 || n == nil {
			return nil, false
		}
		sites := 0
		for _, e := range n.In {
			if e.Site == nil || isTestFile(p, e.Site.Pos()) || e.Site.Common().IsInvoke() {
				continue
			}
			args := e.Site.Common().Args
			if idx >= len(args) || !txElem(args[idx]) {
				return nil, false
			}
			sites++
		}
		return arg, sites > 0
	}
	return nil, false
}

// c11sizeMeasure (C11.R8): proposer and replica bound the same quantity. The proposer fills a block until the sum of the
// raw transaction lengths would exceed GetMaxBlockSize(); the replica's certificate check must measure that same sum (its
// limit, the BlockSize parameter, is larger by the header allowance). Measuring anything that grows faster — the encoded
// block, results — makes replicas reject blocks an honest proposer legitimately fills.
func c11sizeMeasure(c *ctx) {
	r := c.r
	r.Rule("R8", "AGREE", "block-size gate measures one quantity on both sides: the proposer (ApplyTransactions, ApplyBlockResults.BlockSize) and the replica (QuorumCertificate.Check) both compare a sum of len(transaction) terms with the limit; BlockSize has a single writer adding len(tx)", 4)
	applyTxs := c.fn("fsm.(*StateMachine).ApplyTransactions")
	qcCheck := c.fn("lib.(*QuorumCertificate).Check")
	addOK := c.fn("lib.(*ApplyBlockResults).Add")
	bsF := c.field("lib", "ApplyBlockResults", "BlockSize")
	getMax := c.fn("fsm.(*StateMachine).GetMaxBlockSize")
	if applyTxs == nil || qcCheck == nil || addOK == nil || bsF == nil || getMax == nil {
		return
	}
	describe := func(leaves []ssa.Value) string {
		var ps []string
		for _, l := range leaves {
			ps = append(ps, c.p.path(l))
		}
		return strings.Join(ps, " + ")
	}
	// replica: the comparison against the maxBlockSize parameter
	var maxParam ssa.Value
	for _, pa := range qcCheck.Params {
		if pa.Name() == "maxBlockSize" {
			maxParam = pa
		}
	}
	if maxParam == nil {
		r.Unk("R8/QuorumCertificate.Check/limit", c.p.Pos(qcCheck.Pos()), "QuorumCertificate.Check has no maxBlockSize parameter any more (rule needs re-reading)")
		return
	}
	nRep := 0
	instrs(qcCheck, func(in ssa.Instruction) {
		b, ok := in.(*ssa.BinOp)
		if !ok || !isOrdering(b.Op) {
			return
		}
		var measured ssa.Value
		if stripConv(b.Y) == maxParam {
			measured = b.X
		} else if stripConv(b.X) == maxParam {
			measured = b.Y
		} else {
			return
		}
		nRep++
		leaves := sumLeaves(c.p, measured)
		ok = len(leaves) > 0
		for _, l := range leaves {
			e, isLen := lenOfTx(c.p, l)
			if !isLen || !strings.Contains(c.p.path(e), ".Transactions") {
				ok = false
			}
		}
		r.Check(ok, "R8/QuorumCertificate.Check/measure", c.p.Pos(b.Pos()), "replica measures "+describe(leaves)+" (transaction bytes)",
			"the replica compares "+describe(leaves)+" with the block-size limit; the proposer bounds the sum of raw transaction lengths, so a block the honest proposer fills to its limit can exceed what replicas accept")
	})
	r.Check(nRep >= 1, "R8/QuorumCertificate.Check/gate", c.p.Pos(qcCheck.Pos()), "the certificate check bounds the block size", "QuorumCertificate.Check no longer compares anything with maxBlockSize")
	// proposer: the comparison against GetMaxBlockSize()'s result
	nProp := 0
	instrs(applyTxs, func(in ssa.Instruction) {
		b, ok := in.(*ssa.BinOp)
		if !ok || !isOrdering(b.Op) {
			return
		}
		isLimit := func(v ssa.Value) bool {
			ex, ok := stripConv(v).(*ssa.Extract)
			if !ok || ex.Index != 0 {
				return false
			}
			call, ok := ex.Tuple.(*ssa.Call)
			return ok && callIs(call.Common(), getMax)
		}
		var measured ssa.Value
		if isLimit(b.Y) {
			measured = b.X
		} else if isLimit(b.X) {
			measured = b.Y
		} else {
			return
		}
		nProp++
		leaves := sumLeaves(c.p, measured)
		ok = len(leaves) > 0
		for _, l := range leaves {
			if _, isLen := lenOfTx(c.p, l); isLen {
				continue
			}
			if pth := c.p.path(l); strings.HasSuffix(pth, ".BlockSize") {
				continue
			}
			ok = false
		}
		r.Check(ok, "R8/ApplyTransactions/measure", c.p.Pos(b.Pos()), "proposer measures "+describe(leaves), "the proposer's size gate compares "+describe(leaves)+" with GetMaxBlockSize(): it no longer bounds the sum of raw transaction lengths the replica measures")
	})
	r.Check(nProp >= 1, "R8/ApplyTransactions/gate", c.p.Pos(applyTxs.Pos()), "ApplyTransactions bounds the block against GetMaxBlockSize()", "ApplyTransactions no longer compares the running size with GetMaxBlockSize()")
	// the accumulator: BlockSize is written only by Add, as BlockSize + len(tx)
	for _, w := range c.p.fieldWrites(bsF) {
		f := w.Fn
		if isTestFile(c.p, f.Pos()) || isFreshAlloc(w.Base) {
			continue
		}
		okw := f == addOK
		if okw {
			for _, l := range sumLeaves(c.p, w.Instr.Val) {
				if _, isLen := lenOfTx(c.p, l); isLen {
					continue
				}
				if strings.HasSuffix(c.p.path(l), ".BlockSize") {
					continue
				}
				okw = false
			}
		}
		r.Check(okw, "R8/BlockSize-writer/"+fnName(f), c.p.Pos(w.Instr.Pos()), "BlockSize += len(tx) in ApplyBlockResults.Add", fnName(f)+" writes ApplyBlockResults.BlockSize with something other than BlockSize + len(tx): the proposer's running size no longer equals the sum of transaction lengths")
	}
}

func stripConv(v ssa.Value) ssa.Value {
	for {
		switch x := v.(type) {
		case *ssa.Convert:
			v = x.X
		case *ssa.ChangeType:
			v = x.X
		default:
			return v
		}
	}
}

// ruleBlockResultsReadOnly (C11.R10 / C03.R8): a *lib.BlockResult that a function receives or loads may be the entry of
// the process-wide block cache (IndexBlock caches the object it is handed; GetBlockByHeight returns the cached object), and
// it is what the archive serves to syncing peers. Readers must therefore not change it: no store through it and no
// in-place reordering of its Transactions / Events. (The block under construction is a fresh object and is not concerned.)
func (c *ctx) ruleBlockResultsReadOnly(R string) {
	r := c.r
	r.Rule(R, "ALIAS", "indexed blocks are immutable to their readers: a function that receives or loads a *lib.BlockResult does not store through it and does not sort/reverse its Transactions or Events in place (IndexBlock, which fills the size metadata of the block it is indexing, excepted)", 1)
	brT := c.p.Named("lib", "BlockResult")
	if !r.Anchor(brT != nil, "lib.BlockResult") {
		return
	}
	allowed := map[string]string{
		"(*store.Indexer).IndexBlock":    "sets Meta.Size on the block being indexed, before it is cached",
		"(*store.Indexer).setBlocksTook": "fills Meta.Took of the per-page shallow copies GetBlocks builds (each with its own Meta) for exactly that purpose",
	}
	isBR := func(t types.Type) bool {
		pt, ok := t.(*types.Pointer)
		if !ok {
			return false
		}
		nt := namedOf(pt.Elem())
		return nt != nil && nt.Obj() == brT.Obj()
	}
	holders, bad := 0, 0
	for _, f := range c.p.Funcs {
		if !inCanopy(f) || isTestFile(c.p, f.Pos()) || f.Parent() != nil {
			continue
		}
		switch pkgShort(f) {
		case "fsm", "controller", "store", "bft":
		default:
			continue
		}
		// roots: block results this function did not create
		var roots []string
		for _, pa := range f.Params {
			if isBR(pa.Type()) {
				roots = append(roots, c.p.path(pa))
			} else if sl, ok := pa.Type().Underlying().(*types.Slice); ok && isBR(sl.Elem()) {
				roots = append(roots, c.p.path(pa)) // a list of block results (blocks ...*lib.BlockResult)
			}
		}
		for _, g := range withAnons(f) {
			instrs(g, func(in ssa.Instruction) {
				if v, ok := in.(ssa.Value); ok {
					if call, isCall := in.(*ssa.Call); isCall {
						if isBR(v.Type()) {
							roots = append(roots, c.p.path(v))
						} else if tup, ok := call.Type().(*types.Tuple); ok && tup.Len() > 0 && isBR(tup.At(0).Type()) {
							roots = append(roots, c.p.path(v)+"#0")
						}
					}
				}
			})
		}
		if len(roots) == 0 {
			continue
		}
		holders++
		derived := func(pth string) string {
			pth = strings.TrimLeft(pth, "&*")
			for _, rt := range roots {
				if strings.HasPrefix(pth, rt+".") || strings.HasPrefix(pth, rt+"[") {
					return rt
				}
			}
			return ""
		}
		name := fnName(f)
		report := func(pos token.Pos, what string) {
			if why, ok := allowed[name]; ok {
				r.OK(R+"/"+name+"/mutation", c.p.Pos(pos), "table: "+why)
				return
			}
			bad++
			r.Bad(R+"/"+name+"/mutation", c.p.Pos(pos), name+" "+what+": the object may be the process-wide cache entry of that height, so every later reader — certificate results, the archive that serves syncing peers — sees the change")
		}
		for _, g := range withAnons(f) {
			instrs(g, func(in ssa.Instruction) {
				switch x := in.(type) {
				case *ssa.Store:
					if _, isLocal := x.Addr.(*ssa.Alloc); isLocal {
						return // assignment to a local variable (rendered as its content)
					}
					if rt := derived(c.p.path(x.Addr)); rt != "" {
						report(x.Pos(), "stores through the block result "+rt+" ("+c.p.path(x.Addr)+")")
					}
				case *ssa.Call:
					cn := calleeName(x.Common())
					if strings.HasPrefix(cn, "sort.") || strings.HasPrefix(cn, "slices.Sort") || strings.HasPrefix(cn, "slices.Reverse") {
						if len(x.Common().Args) > 0 {
							if rt := derived(c.p.path(x.Common().Args[0])); rt != "" {
								report(x.Pos(), "reorders "+c.p.path(x.Common().Args[0])+" of the block result "+rt+" in place ("+cn+")")
							}
						}
					}
				}
			})
		}
	}
	r.Analysed["block_result_holders"] = holders
	r.Check(holders >= 5, R+"/holders", "?", fmt.Sprintf("%d functions hold a block result they did not create; %d mutate it", holders, bad), fmt.Sprintf("only %d functions holding a block result found (rule needs re-reading)", holders))
}

// ruleIndexKeysOrdered (C11.R11): the archive rebuilds a block (and every "by height" listing) by iterating an indexer key
// prefix in the database's byte order, so byte order must be numeric order: every number that becomes part of an indexer
// key is encoded fixed-width big-endian. Decided structurally: in every call of Indexer.key, a key segment that is
// computed from an integer reaches it through Indexer.encodeBigEndian (or a method of binary.BigEndian), and
// encodeBigEndian itself writes 8 big-endian bytes. A variable-length or little-endian encoding sorts 256 before 3.
func (c *ctx) ruleIndexKeysOrdered(R string) {
	r := c.r
	r.Rule(R, "FLOW", "archive order: every integer that becomes a segment of an indexer key (Indexer.key call sites) is encoded by Indexer.encodeBigEndian or binary.BigEndian, and encodeBigEndian writes a fixed 8-byte big-endian value: prefix iteration then returns transactions, events and blocks in numeric order", 30)
	keyFn := c.p.Fn("store.(*Indexer).key")
	enc := c.p.Fn("store.(*Indexer).encodeBigEndian")
	if !r.Anchor(keyFn != nil && enc != nil, "(*store.Indexer).key / encodeBigEndian") {
		return
	}
	isBE := func(cc *ssa.CallCommon) bool {
		if callIs(cc, enc) {
			return true
		}
		if sc := cc.StaticCallee(); sc != nil && sc.Signature.Recv() != nil && sc.Pkg != nil && sc.Pkg.Pkg.Path() == "encoding/binary" {
			rt := sc.Signature.Recv().Type()
			if pt, ok := rt.(*types.Pointer); ok {
				rt = pt.Elem()
			}
			if nt := namedOf(rt); nt != nil && nt.Obj().Name() == "bigEndian" {
				return sc.Name() == "PutUint64" || sc.Name() == "AppendUint64"
			}
		}
		return false
	}
	// encodeBigEndian's own body
	okBody, other := false, ""
	for _, g := range bodyFuncs(enc, true) {
		instrs(g, func(in ssa.Instruction) {
			cc := callCommon(in)
			if cc == nil {
				return
			}
			if sc := cc.StaticCallee(); sc != nil && sc.Pkg != nil && sc.Pkg.Pkg.Path() == "encoding/binary" {
				if isBE(cc) {
					okBody = true
				} else {
					other = calleeName(cc)
				}
			}
		})
	}
	r.Check(okBody && other == "", R+"/encodeBigEndian/body", c.p.Pos(enc.Pos()), "binary.BigEndian.PutUint64 on 8 bytes", "Indexer.encodeBigEndian no longer encodes with binary.BigEndian 64-bit ("+other+"): indexer keys would not sort in numeric order")
	// a segment computed from an integer: walk the definition of the value
	var numeric func(v ssa.Value, seen map[ssa.Value]bool, d int) ssa.Value
	numeric = func(v ssa.Value, seen map[ssa.Value]bool, d int) ssa.Value {
		if v == nil || seen[v] || d > 12 {
			return nil
		}
		seen[v] = true
		if b, ok := v.Type().Underlying().(*types.Basic); ok && b.Info()&types.IsInteger != 0 && b.Kind() != types.Uint8 && b.Kind() != types.Int8 {
			if _, isConst := v.(*ssa.Const); !isConst {
				return v
			}
		}
		switch x := v.(type) {
		case *ssa.Call:
			if isBE(x.Common()) {
				return nil
			}
			if sc := x.Common().StaticCallee(); sc != nil && (c.p.transparentSite(sc) != nil || c.p.isNewNamed(sc)) {
				// a helper this change introduced: what it returns counts, with its parameters read at this call
				for _, b := range sc.Blocks {
					if ret, ok := b.Instrs[len(b.Instrs)-1].(*ssa.Return); ok {
						for _, res := range ret.Results {
							if n := numeric(res, seen, d+1); n != nil {
								return n
							}
						}
					}
				}
				return nil
			}
			// bytes in, bytes out (hashes, joins, conversions of addresses): the arguments decide
			for _, a := range x.Common().Args {
				if n := numeric(a, seen, d+1); n != nil {
					return n
				}
			}
			return nil
		case *ssa.Parameter:
			if site := c.p.transparentSite(x.Parent()); site != nil {
				for i, pa := range x.Parent().Params {
					if pa == x && i < len(site.Common().Args) && !site.Common().IsInvoke() {
						return numeric(site.Common().Args[i], seen, d+1)
					}
				}
			}
			return nil
		case *ssa.Phi:
			for _, e := range x.Edges {
				if n := numeric(e, seen, d+1); n != nil {
					return n
				}
			}
		case *ssa.Convert:
			return numeric(x.X, seen, d+1)
		case *ssa.ChangeType:
			return numeric(x.X, seen, d+1)
		case *ssa.Slice:
			return numeric(x.X, seen, d+1)
		case *ssa.MakeInterface:
			return numeric(x.X, seen, d+1)
		}
		return nil
	}
	n := 0
	for _, f := range c.p.Funcs {
		if !inCanopy(f) || pkgShort(f) != "store" || isTestFile(c.p, f.Pos()) {
			continue
		}
		instrs(f, func(in ssa.Instruction) {
			cc := callCommon(in)
			if cc == nil || !callIs(cc, keyFn) {
				return
			}
			args := cc.Args
			if cc.StaticCallee() != nil && cc.StaticCallee().Signature.Recv() != nil && len(args) > 0 {
				args = args[1:]
			}
			for i, a := range args {
				if i == 0 {
					continue // the prefix
				}
				n++
				bad := numeric(a, map[ssa.Value]bool{}, 0)
				r.Check(bad == nil, fmt.Sprintf("%s/%s/segment%d", R, fnName(enclosing(f)), i), c.p.Pos(in.Pos()), "segment "+short(c.p.path(a)), fmt.Sprintf("%s builds an indexer key segment from the number %s without the fixed-width big-endian encoder (%s): the keys of that prefix no longer iterate in numeric order, so the archive returns a block's transactions (or a listing) in a different order than they were indexed", fnName(enclosing(f)), func() string {
					if bad != nil {
						return c.p.path(bad)
					}
					return ""
				}(), c.p.path(a)))
			}
		})
	}
	r.Analysed["indexer_key_segments"] = n
}
