package main

import (
	"fmt"
	"sort"
	"strings"

	"golang.org/x/tools/go/ssa"
)

func init() {
	register("C04", c04)
	register("C20", c20)
}

// ledger describes the token-location primitives of package fsm (BAL engine, ledger L1).
type ledger struct {
	c                                                   *ctx
	accountAdd, accountSub, accountAddVesting           *ssa.Function
	poolAdd, poolSub                                    *ssa.Function
	mintToPool, mintToAccount, addTotal, subTotal       *ssa.Function
	deleteValidator, updateValidatorStake, setValidator *ssa.Function
}

func newLedger(c *ctx) *ledger {
	l := &ledger{c: c}
	l.accountAdd = c.fn("fsm.(*StateMachine).AccountAdd")
	l.accountSub = c.fn("fsm.(*StateMachine).AccountSub")
	l.accountAddVesting = c.fn("fsm.(*StateMachine).AccountAddWithVesting")
	l.poolAdd = c.fn("fsm.(*StateMachine).PoolAdd")
	l.poolSub = c.fn("fsm.(*StateMachine).PoolSub")
	l.mintToPool = c.fn("fsm.(*StateMachine).MintToPool")
	l.mintToAccount = c.fn("fsm.(*StateMachine).MintToAccount")
	l.addTotal = c.fn("fsm.(*StateMachine).AddToTotalSupply")
	l.subTotal = c.fn("fsm.(*StateMachine).SubFromTotalSupply")
	l.deleteValidator = c.fn("fsm.(*StateMachine).DeleteValidator")
	l.updateValidatorStake = c.fn("fsm.(*StateMachine).UpdateValidatorStake")
	l.setValidator = c.fn("fsm.(*StateMachine).SetValidator")
	for _, f := range []*ssa.Function{l.accountAdd, l.accountSub, l.accountAddVesting, l.poolAdd, l.poolSub, l.mintToPool, l.mintToAccount, l.addTotal, l.subTotal, l.deleteValidator, l.updateValidatorStake, l.setValidator} {
		if f == nil {
			return nil
		}
	}
	return l
}

// classify names a ledger movement: "D|<where>|<amount path>" for a debit, "C|…" for a credit. "" = none.
func (l *ledger) classify(in ssa.Instruction) string {
	cs, ok := in.(ssa.CallInstruction)
	if !ok {
		return ""
	}
	if _, isGo := in.(*ssa.Go); isGo {
		return ""
	}
	cc := cs.Common()
	p := l.c.p
	switch {
	case callIs(cc, l.accountSub):
		return "D|" + p.path(argOf(cs, 1))
	case callIs(cc, l.poolSub):
		return "D|" + p.path(argOf(cs, 1))
	case callIs(cc, l.deleteValidator):
		return "D|" + p.path(argOf(cs, 0)) + ".StakedAmount"
	case callIs(cc, l.accountAdd):
		return "C|" + p.path(argOf(cs, 1))
	case callIs(cc, l.poolAdd):
		return "C|" + p.path(argOf(cs, 1))
	case callIs(cc, l.accountAddVesting):
		return "C|" + p.path(argOf(cs, 0)) + ".Amount"
	case callIs(cc, l.updateValidatorStake):
		return "C|" + p.path(argOf(cs, 2))
	case callIs(cc, l.setValidator):
		// a NEW record (composite literal) carries stake into the validator set
		if st := l.c.p.Field("fsm", "Validator", "StakedAmount"); st != nil {
			if v := litField(argOf(cs, 0), st); v != nil {
				return "C|" + p.path(v)
			}
		}
	}
	return ""
}

// balanced checks that, in the state, every amount path was debited as often as credited.
func balanced(st *PState) string {
	sum := map[string]int{}
	for k, n := range st.SeenAll() {
		if strings.HasPrefix(k, "D|") {
			sum[k[2:]] += n
		} else if strings.HasPrefix(k, "C|") {
			sum[k[2:]] -= n
		}
	}
	var bad []string
	for amt, d := range sum {
		if d > 0 {
			bad = append(bad, fmt.Sprintf("%s is debited %d time(s) more than credited", amt, d))
		} else if d < 0 {
			bad = append(bad, fmt.Sprintf("%s is credited %d time(s) more than debited", amt, -d))
		}
	}
	sort.Strings(bad)
	if len(bad) > 0 {
		return "ledger not balanced on this success path: " + strings.Join(bad, "; ")
	}
	return ""
}

// hasLoopWithLedger: a ledger primitive sits inside a loop of f (then per-path counting saturates).
func (l *ledger) movementsIn(f *ssa.Function) (n int, inLoop bool) {
	for _, b := range f.Blocks {
		for _, in := range b.Instrs {
			if l.classify(in) != "" {
				n++
				if blockInLoop(b) {
					inLoop = true
				}
			}
		}
	}
	return
}

// blockInLoop: the block can reach itself.
func blockInLoop(b *ssa.BasicBlock) bool {
	seen := map[*ssa.BasicBlock]bool{}
	stack := append([]*ssa.BasicBlock(nil), b.Succs...)
	for len(stack) > 0 {
		x := stack[len(stack)-1]
		stack = stack[:len(stack)-1]
		if x == b {
			return true
		}
		if seen[x] {
			continue
		}
		seen[x] = true
		stack = append(stack, x.Succs...)
	}
	return false
}

// C04 — Token supply conservation (structural part).
func c04(c *ctx) {
	r := c.r
	r.Explain = "Static decision of where supply can change and that handlers only move tokens: (R1) who-may-call — the total supply is raised only by MintToPool/MintToAccount, which are called only from the scheduled block mint, the governance-approved DAO mint and the faucet top-up; it is lowered only by slashing and by burning the undistributed reward remainder; raw writes of Supply.Total only in those primitives and the genesis loaders; " +
		"(R2) every mint is paired with a credit of the same amount; (R3) ledger balance by value identity — in every fsm function that moves tokens, on every success path the multiset of debited amount expressions equals the multiset of credited ones; (R4) raw balance fields are written only by the ledger layer."
	r.NotCovered = []string{"no-wrap arithmetic of += / -= (F7)", "reward, slash and AMM rounding (functions listed as out of scope in the evidence)", "genesis consistency", "the global sum over histories (needs values)"}
	r.Trusted = []string{"AccountAdd/AccountSub/PoolAdd/PoolSub change exactly the balance they name by exactly the amount given (checked only as far as R4: they are the only writers)"}
	l := newLedger(c)
	if l == nil {
		return
	}
	fund := c.fn("fsm.(*StateMachine).FundCommitteeRewardPools")
	dao := c.fn("fsm.(*StateMachine).HandleMessageDAOTransfer")
	faucet := c.fn("fsm.(*StateMachine).maybeFaucetTopUpForSendTx")
	slash := c.fn("fsm.(*StateMachine).SlashValidator")
	distribute := c.fn("fsm.(*StateMachine).DistributeCommitteeRewards")
	approve := c.fn("fsm.(*StateMachine).ApproveProposal")
	if fund == nil || dao == nil || faucet == nil || slash == nil || distribute == nil || approve == nil {
		return
	}

	// ------------------------------------------------------------------ R1
	r.Rule("R1", "WHO", "supply changes only where the property says: AddToTotalSupply ⇐ {MintToPool, MintToAccount}; MintTo* ⇐ {FundCommitteeRewardPools (block mint), HandleMessageDAOTransfer after ApproveProposal ok on the Mint branch, maybeFaucetTopUpForSendTx after the faucet-address test}; SubFromTotalSupply ⇐ {SlashValidator, DistributeCommitteeRewards}; stores to Supply.Total only in the two primitives and the genesis loaders", 12)
	c.whoCalls("R1", l.addTotal, allow{l.mintToPool: "mint primitive", l.mintToAccount: "mint primitive"})
	c.whoCalls("R1", l.mintToPool, allow{fund: "scheduled block mint", dao: "governance-approved DAO mint"})
	c.whoCalls("R1", l.mintToAccount, allow{faucet: "faucet top-up when configured"})
	c.whoCalls("R1", l.subTotal, allow{slash: "explicit burn: slash", distribute: "explicit burn: undistributed reward remainder"})
	c.whoCalls("R1", faucet, allow{c.fnQuiet("fsm.(*StateMachine).ApplyTransaction"): "send transactions from the faucet address"})
	if tot := c.field("fsm", "Supply", "Total"); tot != nil {
		c.whoWrites("R1", tot, "Supply.Total", allow{
			l.addTotal: "mint primitive", l.subTotal: "burn primitive",
			c.fnQuiet("fsm.(*StateMachine).SetAccounts"): "genesis import", c.fnQuiet("fsm.(*StateMachine).SetPools"): "genesis import",
			c.fnQuiet("fsm.(*StateMachine).SetValidators"): "genesis import", c.fnQuiet("fsm.(*StateMachine).SetOrderBooks"): "genesis import",
			c.fnQuiet("fsm.(*Supply).UnmarshalJSON"): "JSON decoding",
		}, true)
	}
	// the DAO mint is on the msg.Mint branch and after approval
	c.mpt(mptSpec{rule: "R1", fn: dao, events: evSet{"ApproveProposal": {approve}},
		atom: func(v ssa.Value) (string, bool) {
			if c.p.path(v) == "$1.Mint" {
				return "msg.Mint", false
			}
			return "", false
		},
		target: tgtCall("MintToPool", l.mintToPool),
		reqs:   func(string) []string { return []string{"ApproveProposal.ok", "@msg.Mint=T"} }, minTarget: 1})
	// the faucet mint is on the sender==faucet branch
	equalsM := c.p.IfaceMethod("lib/crypto", "AddressI", "Equals")
	if r.Anchor(equalsM != nil, "crypto.AddressI.Equals") {
		c.mpt(mptSpec{rule: "R1", fn: faucet, events: evSet{},
			extraEv: func(in ssa.Instruction) string {
				if cc := callCommon(in); cc != nil && cc.IsInvoke() && cc.Method == equalsM && c.p.path(cc.Value) == "$1" {
					return "senderIsFaucet"
				}
				return ""
			},
			target: tgtCall("MintToAccount", l.mintToAccount),
			reqs:   func(string) []string { return []string{"senderIsFaucet#0=T"} }, minTarget: 1})
		for _, cs := range callsIn(faucet, false, l.mintToAccount) {
			p := c.p.path(argOf(cs, 0))
			r.Check(p == "$1", "R1/faucet/recipient", c.p.Pos(cs.Pos()), "the faucet mints to the sender (itself)", "the faucet top-up mints to "+p+" instead of the faucet sender")
		}
	}

	// ------------------------------------------------------------------ R2
	r.Rule("R2", "PAIR", "every mint is paired with an equal credit: MintToPool = AddToTotalSupply(a) ok then PoolAdd(id, a); MintToAccount = AddToTotalSupply(a) ok then AccountAdd(addr, a)", 4)
	for _, m := range []struct {
		fn, credit *ssa.Function
		name       string
	}{{l.mintToPool, l.poolAdd, "PoolAdd"}, {l.mintToAccount, l.accountAdd, "AccountAdd"}} {
		c.mpt(mptSpec{rule: "R2", fn: m.fn, events: evSet{"AddToTotalSupply": {l.addTotal}},
			target: tgtCall(m.name, m.credit), reqs: func(string) []string { return []string{"AddToTotalSupply.ok"} }, minTarget: 1})
		var supplyAmt, creditAmt, creditTo string
		for _, cs := range callsIn(m.fn, false, l.addTotal) {
			supplyAmt = c.p.path(argOf(cs, 0))
		}
		for _, cs := range callsIn(m.fn, false, m.credit) {
			creditTo, creditAmt = c.p.path(argOf(cs, 0)), c.p.path(argOf(cs, 1))
		}
		r.Check(supplyAmt == "$2" && creditAmt == "$2" && creditTo == "$1", "R2/"+fnName(m.fn)+"/same-amount", c.p.Pos(m.fn.Pos()), "supply += a and "+m.name+"(target, a) with the same a",
			fmt.Sprintf("%s raises the supply by %s but credits %s to %s: minted tokens and the recorded total drift apart", fnName(m.fn), supplyAmt, creditAmt, creditTo))
		// success of the mint is the success of the credit (tail call), or nothing happened (amount==0)
		okTail := false
		instrs(m.fn, func(in ssa.Instruction) {
			if ret, ok := in.(*ssa.Return); ok {
				if call, ok := ret.Results[0].(*ssa.Call); ok && callIs(call.Common(), m.credit) {
					okTail = true
				}
			}
		})
		r.Check(okTail, "R2/"+fnName(m.fn)+"/returns-credit-result", c.p.Pos(m.fn.Pos()), "returns the credit's result", fnName(m.fn)+" no longer returns the result of the credit: a failed credit after the supply bump would go unnoticed")
	}

	// ------------------------------------------------------------------ R3
	r.Rule("R3", "BAL", "handlers only move tokens: in every fsm function containing ledger movements, on every success path the debited amount expressions and the credited amount expressions form the same multiset (same SSA value / same access path)", 14)
	// out of scope, with reasons (computed amounts; their conservation is arithmetic, not shape)
	outOfScope := map[string]string{
		"(*fsm.StateMachine).DistributeCommitteeReward":   "pays a computed share of a pool that the caller zeroes afterwards (checked separately below: reported amount == credited amount)",
		"(*fsm.StateMachine).SetOrderBooks":               "genesis import: escrow pools are funded together with Supply.Total",
		"(*fsm.StateMachine).HandleDexBatchOrders":        "AMM: computed output amounts (x*y=k), value-level",
		"(*fsm.StateMachine).handleBatchWithdraw":         "AMM: pro-rata withdrawal arithmetic, value-level",
		"(*fsm.StateMachine).handleBatchDeposit":          "AMM: liquidity points arithmetic, value-level",
		"(*fsm.StateMachine).HandleDexBatchReceipt":       "AMM: settles computed receipts, value-level",
		"(*fsm.StateMachine).maybeFaucetTopUpForSendTx":   "mint (R1/R2)",
		"(*fsm.StateMachine).FundCommitteeRewardPools":    "mint (R1/R2)",
		"(*fsm.StateMachine).HandleMessageDAOTransfer":    "", // in scope; MintToPool is internally balanced
		"(*fsm.StateMachine).MintToPool":                  "mint primitive (R2)",
		"(*fsm.StateMachine).MintToAccount":               "mint primitive (R2)",
		"(*fsm.StateMachine).UpdateValidatorStake":        "stake primitive: tallies checked by C12.R3",
		"(*fsm.StateMachine).DeleteValidator":             "stake primitive: tallies checked by C12.R3",
		"(*fsm.StateMachine).SlashValidator":              "burn: stake is reduced by the amount removed from the total supply (C12.R3 checks the expressions)",
		"(*fsm.StateMachine).SetValidators":               "genesis import",
		"(*fsm.StateMachine).HandleMessageStake":          "", // in scope
		"(*fsm.StateMachine).DistributeCommitteeRewards":  "burn of the undistributed remainder (expressions checked below)",
		"(*fsm.StateMachine).HandleDexBatchWithdrawals":   "AMM arithmetic, value-level",
		"(*fsm.StateMachine).HandleRemoteDexBatch":        "AMM arithmetic, value-level",
		"(*fsm.StateMachine).HandleDexBatchDeposits":      "AMM arithmetic, value-level",
		"(*fsm.StateMachine).HandleLockedDexBatchReceipt": "AMM arithmetic, value-level",
	}
	analysed, skipped := 0, 0
	var skippedNames []string
	for _, f := range c.p.Funcs {
		if pkgShort(f) != "fsm" || isTestFile(c.p, f.Pos()) || f.Parent() != nil {
			continue
		}
		n := 0
		loop := false
		for _, g := range withAnons(f) {
			k, lp := l.movementsIn(g)
			n += k
			loop = loop || lp
		}
		if n == 0 {
			continue
		}
		name := fnName(f)
		if reason := outOfScope[name]; reason != "" {
			skipped++
			skippedNames = append(skippedNames, name+": "+reason)
			continue
		}
		// the ledger primitives themselves are not movers
		if f == l.accountAdd || f == l.accountSub || f == l.poolAdd || f == l.poolSub || f == l.accountAddVesting {
			continue
		}
		analysed++
		funcs := []*ssa.Function{f}
		// callbacks that move tokens (IterateAndExecute closures) are analysed as functions of their own
		for _, a := range f.AnonFuncs {
			if k, _ := l.movementsIn(a); k > 0 {
				funcs = append(funcs, a)
			}
		}
		for _, g := range funcs {
			if k, _ := l.movementsIn(g); k == 0 {
				continue
			}
			c.mpt(mptSpec{
				rule: "R3", fn: g, events: evSet{},
				extraEv:   l.classify,
				target:    tgtOkReturn("success-path"),
				check:     func(label string, in ssa.Instruction, st *PState, e *pathEngine) string { return balanced(st) },
				desc:      "debited amounts == credited amounts (as expressions)",
				minTarget: 1,
			})
		}
		if loop {
			r.OK("R3/"+name+"/loop-note", c.p.Pos(f.Pos()), "contains a ledger movement inside a loop: the per-path counters saturate at 2, so balance is decided per iteration shape, not per iteration count")
		}
	}
	r.Analysed["bal_functions_analysed"] = analysed
	r.Analysed["bal_functions_out_of_scope"] = skipped
	sort.Strings(skippedNames)
	r.OK("R3/out-of-scope", "fsm", "not analysed (reason each): "+strings.Join(skippedNames, " | "))
	// DistributeCommitteeReward: the amount it reports as distributed is the amount it credits
	if dcr := c.fn("fsm.(*StateMachine).DistributeCommitteeReward"); dcr != nil {
		n := 0
		instrs(dcr, func(in ssa.Instruction) {
			ret, ok := in.(*ssa.Return)
			if !ok || len(ret.Results) != 2 {
				return
			}
			call, ok := ret.Results[1].(*ssa.Call)
			if !ok {
				return
			}
			mv := l.classify(call)
			if mv == "" {
				return
			}
			n++
			rep := c.p.path(ret.Results[0])
			r.Check("C|"+rep == mv, "R3/DistributeCommitteeReward/reported==credited", c.p.Pos(call.Pos()), "reports "+rep+" and credits the same", "DistributeCommitteeReward reports "+rep+" as distributed but performs "+mv+": the caller burns pool − Σreported, so supply and balances drift apart")
		})
		r.Check(n >= 3, "R3/DistributeCommitteeReward/credit-returns", c.p.Pos(dcr.Pos()), fmt.Sprintf("%d crediting returns", n), "expected DistributeCommitteeReward to credit on three return paths (account, compounding stake, output address)")
	}
	// DistributeCommitteeRewards: burns pool.Amount − Σdistributed and zeroes that same pool
	{
		var burn, zeroed string
		for _, cs := range callsIn(distribute, false, l.subTotal) {
			burn = c.p.path(argOf(cs, 0))
		}
		if amt := c.field("fsm", "Pool", "Amount"); amt != nil {
			for _, st := range storesTo(distribute, amt) {
				if c.p.path(st.Val) == "0" {
					if fa, ok := st.Addr.(*ssa.FieldAddr); ok {
						zeroed = c.p.path(fa.X)
					}
				}
			}
		}
		ok := zeroed != "" && strings.HasPrefix(burn, "("+zeroed+".Amount - ")
		r.Check(ok, "R3/DistributeCommitteeRewards/burn-remainder", c.p.Pos(distribute.Pos()), "burns "+burn+" and zeroes "+zeroed, "DistributeCommitteeRewards burns "+burn+" but zeroes pool "+zeroed+": expected SubFromTotalSupply(pool.Amount − totalDistributed) for the pool that is zeroed")
	}

	// ------------------------------------------------------------------ R5
	r.Rule("R5", "PAIR", "a slash burns what it removes: in SlashValidator every removal of stake (deleting the record, or storing the reduced stake) happens only after SubFromTotalSupply succeeded for the difference old − new", 2)
	if stF := c.p.Field("fsm", "Validator", "StakedAmount"); stF != nil {
		c.mpt(mptSpec{rule: "R5", fn: slash, events: evSet{"SubFromTotalSupply": {l.subTotal}},
			target: func(in ssa.Instruction, st *PState, e *pathEngine) string {
				if cc := callCommon(in); cc != nil && callIs(cc, l.deleteValidator) {
					return "delete-record"
				}
				if f, _, _ := storeField(in); f == stF && in.Parent() == e.r.Fn {
					return "reduce-stake"
				}
				return ""
			},
			reqs: func(string) []string { return []string{"SubFromTotalSupply.ok"} }, minTarget: 2})
		var after string
		for _, st := range storesTo(slash, stF) {
			after = c.p.path(st.Val)
		}
		for _, cs := range callsIn(slash, false, l.subTotal) {
			p := c.p.path(argOf(cs, 0))
			r.Check(after != "" && p == "($1.StakedAmount - "+after+")", "R5/SlashValidator/burn-amount", c.p.Pos(cs.Pos()), "burns old stake − new stake", "SlashValidator burns "+p+" but the stake becomes "+after+": expected old − new")
		}
	}

	// ------------------------------------------------------------------ R4
	r.Rule("R4", "WHO", "ledger layering (re-audit gate): Account.Amount and Pool.Amount are written only by the ledger primitives, the genesis loaders, the reward-pool zeroing and the AMM batch code", 6)
	if f := c.field("fsm", "Account", "Amount"); f != nil {
		c.whoWrites("R4", f, "Account.Amount", allow{l.accountAdd: "ledger primitive", l.accountSub: "ledger primitive", l.accountAddVesting: "ledger primitive",
			c.fnQuiet("fsm.(*Account).UnmarshalJSON"): "JSON decoding", c.fnQuiet("fsm.(*StateMachine).unmarshalAccount"): "decoding"}, true)
	}
	if f := c.field("fsm", "Pool", "Amount"); f != nil {
		c.whoWrites("R4", f, "Pool.Amount", allow{l.poolAdd: "ledger primitive", l.poolSub: "ledger primitive", distribute: "zeroing after the remainder was burned (R3)",
			c.fnQuiet("fsm.(*StateMachine).addToSupplyPool"): "stake tally pools (not token locations)", c.fnQuiet("fsm.(*StateMachine).subFromSupplyPool"): "stake tally pools (not token locations)",
			c.fnQuiet("fsm.(*StateMachine).executeOnSupplyPool"): "stake tally pools", c.fnQuiet("fsm.(*StateMachine).findOrCreateSupplyPool"): "stake tally pools",
			c.fnQuiet("fsm.(*StateMachine).handleBatchWithdraw"): "AMM ledger: liquidity pool amount (arithmetic not covered, C20)", c.fnQuiet("fsm.(*StateMachine).handleBatchDeposit"): "AMM ledger: liquidity pool amount (arithmetic not covered, C20)",
			c.fnQuiet("fsm.(*Pool).UnmarshalJSON"): "JSON decoding", c.fnQuiet("fsm.clonePool"): "copy"}, true)
	}
}

// C20 — Escrow / order-book accounting (order-book escrow only).
func c20(c *ctx) {
	r := c.r
	r.Explain = "Static decision of the order-book escrow clause: (R1) in create/edit/delete/close order, DEX limit order and liquidity deposit, the account leg and the pool leg carry the same amount expression, the pool is chainId + the escrow (or holding) addend on the way in and on the way out, and the stored order carries that amount; (R2) a payout is followed on the same path by the deletion of the order that was read, and locked orders cannot be edited or deleted; (R3) a pool object whose Amount was changed is persisted before the function returns ok; (R4) the cross-chain atomic lock is lifted only after the counter chain acknowledged our locked batch (receipt hash equality)."
	r.NotCovered = []string{"escrow pool == Σ open orders over histories (needs values)", "liquidity-provider points, x*y=k, rounding, withdrawals (AMM arithmetic)", "duplicate or conflicting instructions inside one certificate"}
	r.Trusted = []string{"PoolAdd/PoolSub/AccountAdd/AccountSub semantics (C04.R4)"}
	l := newLedger(c)
	if l == nil {
		return
	}
	setOrder := c.fn("fsm.(*StateMachine).SetOrder")
	deleteOrder := c.fn("fsm.(*StateMachine).DeleteOrder")
	getOrder := c.fn("fsm.(*StateMachine).GetOrder")
	if setOrder == nil || deleteOrder == nil || getOrder == nil {
		return
	}
	type spec struct {
		fn     string
		addend string // name of the pool addend constant
		chain  string // path of the chain id
	}
	specs := []spec{
		{"fsm.(*StateMachine).HandleMessageCreateOrder", "EscrowPoolAddend", "$1.ChainId"},
		{"fsm.(*StateMachine).HandleMessageEditOrder", "EscrowPoolAddend", "$1.ChainId"},
		{"fsm.(*StateMachine).HandleMessageDeleteOrder", "EscrowPoolAddend", "$1.ChainId"},
		{"fsm.(*StateMachine).CloseOrder", "EscrowPoolAddend", "$2"},
		{"fsm.(*StateMachine).HandleMessageDexLimitOrder", "HoldingPoolAddend", "$1.ChainId"},
		{"fsm.(*StateMachine).HandleMessageDexLiquidityDeposit", "HoldingPoolAddend", "$1.ChainId"},
	}
	r.Rule("R1", "BAL", "escrow moves the order amount: both legs carry the same amount expression on every success path; the pool id is chainId + the kind's addend on both sides; the stored order / batch element carries that amount", 18)
	fsmPkg := c.p.pkg("fsm")
	for _, s := range specs {
		f := c.fn(s.fn)
		if f == nil {
			continue
		}
		c.mpt(mptSpec{rule: "R1", fn: f, events: evSet{}, extraEv: l.classify, target: tgtOkReturn("success-path"),
			check: func(label string, in ssa.Instruction, st *PState, e *pathEngine) string { return balanced(st) }, desc: "debited amounts == credited amounts", minTarget: 1})
		if fsmPkg.Types.Scope().Lookup(s.addend) == nil {
			r.Anchor(false, "fsm."+s.addend)
			continue
		}
		addVal := "fsm." + s.addend
		n := 0
		for _, dc := range c.p.callsInDeep(f, l.poolAdd, l.poolSub) {
			cs := dc.CS
			n++
			p := c.p.pathIn(dc.Chain, argOf(cs, 0))
			want := "(" + s.chain + " + " + addVal + ")"
			r.Check(p == want, "R1/"+fnName(f)+"/pool-id", c.p.Pos(cs.Pos()), "pool = "+p, fnName(f)+" moves tokens through pool "+p+", expected "+want+" ("+s.addend+"): escrowed funds would sit in a pool no payout reads")
		}
		r.Check(n >= 1, "R1/"+fnName(f)+"/has-pool-leg", c.p.Pos(f.Pos()), fmt.Sprintf("%d pool leg(s)", n), fnName(f)+" has no pool leg any more")
	}
	// the addends are package variables: nobody may assign them
	for _, name := range []string{"EscrowPoolAddend", "HoldingPoolAddend", "LiquidityPoolAddend", "MaxChainId"} {
		obj := fsmPkg.Types.Scope().Lookup(name)
		if obj == nil {
			continue
		}
		written := false
		for _, f := range c.p.Funcs {
			if !inCanopy(f) || f.Name() == "init" {
				continue
			}
			instrs(f, func(in ssa.Instruction) {
				if st, ok := in.(*ssa.Store); ok {
					if g, ok := st.Addr.(*ssa.Global); ok && g.Object() == obj {
						written = true
					}
				}
			})
		}
		r.Check(!written, "R1/addend-constant/"+name, "fsm/key.go", "never reassigned", "the pool addend "+name+" is a package variable and is assigned at run time: escrow and payout could address different pools")
	}
	// the stored order carries the escrowed amount
	if create := c.fn("fsm.(*StateMachine).HandleMessageCreateOrder"); create != nil {
		afs := c.p.Field("lib", "SellOrder", "AmountForSale")
		for _, cs := range callsIn(create, false, setOrder) {
			v := litField(argOf(cs, 0), afs)
			p := "<unset>"
			if v != nil {
				p = c.p.path(v)
			}
			r.Check(p == "$1.AmountForSale", "R1/CreateOrder/stored-amount", c.p.Pos(cs.Pos()), "order.AmountForSale = escrowed amount", "the stored order carries AmountForSale="+p+" but $1.AmountForSale was escrowed")
		}
	}
	if edit := c.fn("fsm.(*StateMachine).HandleMessageEditOrder"); edit != nil {
		afs := c.p.Field("lib", "SellOrder", "AmountForSale")
		for _, cs := range callsIn(edit, false, setOrder) {
			v := litField(argOf(cs, 0), afs)
			p := "<unset>"
			if v != nil {
				p = c.p.path(v)
			}
			r.Check(p == "$1.AmountForSale", "R1/EditOrder/stored-amount", c.p.Pos(cs.Pos()), "order.AmountForSale = new amount", "the edited order carries AmountForSale="+p+" but escrow was adjusted to $1.AmountForSale")
		}
		// the adjustment is the difference between new and old amount, in the right direction
		for _, cs := range callsIn(edit, false, l.accountSub, l.accountAdd) {
			p := c.p.path(argOf(cs, 1))
			old := "$0.GetOrder($1.OrderId,$1.ChainId)#0.AmountForSale"
			want := "($1.AmountForSale - " + old + ")"
			if callIs(cs.Common(), l.accountAdd) {
				want = "(" + old + " - $1.AmountForSale)"
			}
			r.Check(p == want, "R1/EditOrder/difference", c.p.Pos(cs.Pos()), "adjusts by "+p, "EditOrder adjusts the seller's balance by "+p+", expected "+want)
		}
	}

	r.Rule("R2", "PAIR", "exactly once: CloseOrder / HandleMessageDeleteOrder pay out and then delete the order they read (same id and chain); Edit/Delete refuse locked orders before any movement", 6)
	for _, s := range []struct{ fn, id, chain string }{{"fsm.(*StateMachine).CloseOrder", "$1", "$2"}, {"fsm.(*StateMachine).HandleMessageDeleteOrder", "$1.OrderId", "$1.ChainId"}} {
		f := c.fn(s.fn)
		if f == nil {
			continue
		}
		c.mpt(mptSpec{rule: "R2", fn: f, events: evSet{"PoolSub": {l.poolSub}, "AccountAdd": {l.accountAdd}, "DeleteOrder": {deleteOrder}},
			target: tgtOkReturn("ok-return"), reqs: func(string) []string { return []string{"PoolSub.ok", "AccountAdd.ok", "seen:DeleteOrder"} }, minTarget: 1})
		for _, cs := range callsIn(f, false, getOrder, deleteOrder) {
			id, ch := c.p.path(argOf(cs, 0)), c.p.path(argOf(cs, 1))
			r.Check(id == s.id && ch == s.chain, "R2/"+fnName(f)+"/same-order", c.p.Pos(cs.Pos()), "order ("+id+", "+ch+")", fnName(f)+" reads/deletes order ("+id+", "+ch+"), expected ("+s.id+", "+s.chain+"): the paid order would stay open")
		}
	}
	for _, spec := range []string{"fsm.(*StateMachine).HandleMessageEditOrder", "fsm.(*StateMachine).HandleMessageDeleteOrder"} {
		f := c.fn(spec)
		if f == nil {
			continue
		}
		c.mpt(mptSpec{rule: "R2", fn: f, events: evSet{}, extraEv: l.classify,
			atom: func(v ssa.Value) (string, bool) {
				if b, ok := v.(*ssa.BinOp); ok && strings.HasSuffix(c.p.path(b.X), ".BuyerReceiveAddress") && c.p.path(b.Y) == "nil" {
					return "locked", b.Op.String() == "=="
				}
				return "", false
			},
			target: func(in ssa.Instruction, st *PState, e *pathEngine) string {
				if l.classify(in) != "" {
					return "movement"
				}
				return ""
			},
			reqs: func(string) []string { return []string{"@locked=F"} }, minTarget: 1})
	}
	// CloseOrder pays only a locked (claimed) order, to the buyer's receive address
	if closeOrder := c.fn("fsm.(*StateMachine).CloseOrder"); closeOrder != nil {
		for _, cs := range callsIn(closeOrder, false, l.accountAdd) {
			p := trimAddrWrappers(c.p.path(argOf(cs, 0)))
			r.Check(strings.HasSuffix(p, ".BuyerReceiveAddress"), "R2/CloseOrder/recipient", c.p.Pos(cs.Pos()), "pays "+p, "CloseOrder pays "+p+", expected the order's BuyerReceiveAddress")
		}
	}

	// ------------------------------------------------------------------ R3
	r.Rule("R3", "PAIR", "persist what you mutate: a function that changes Pool.Amount on a pool object it holds (directly or through a callee that writes the field) returns ok only after SetPool of that same object — unless its own `persist` parameter is false, which hands the duty to its caller", 3)
	poolAmount := c.p.Field("fsm", "Pool", "Amount")
	setPool := c.fn("fsm.(*StateMachine).SetPool")
	getPool := c.fn("fsm.(*StateMachine).GetPool")
	if poolAmount != nil && setPool != nil && getPool != nil {
		var writesAmount func(f *ssa.Function, i int, depth int) bool
		writesAmount = func(f *ssa.Function, i int, depth int) bool {
			if f == nil || len(f.Blocks) == 0 || i >= len(f.Params) || depth > 3 {
				return false
			}
			hit := false
			derived := map[ssa.Value]bool{f.Params[i]: true}
			for changed := true; changed; {
				changed = false
				instrs(f, func(in ssa.Instruction) {
					if ph, ok := in.(*ssa.Phi); ok && !derived[ph] {
						for _, e := range ph.Edges {
							if derived[e] {
								derived[ph] = true
								changed = true
							}
						}
					}
				})
			}
			instrs(f, func(in ssa.Instruction) {
				switch x := in.(type) {
				case *ssa.Store:
					if fa, ok := x.Addr.(*ssa.FieldAddr); ok && derived[fa.X] && fieldOfAddr(fa) == poolAmount {
						hit = true
					}
				case ssa.CallInstruction:
					if callee := x.Common().StaticCallee(); callee != nil && inCanopy(callee) && callee != f {
						for ai, a := range x.Common().Args {
							if derived[a] && writesAmount(callee, ai, depth+1) {
								hit = true
							}
						}
					}
				}
			})
			return hit
		}
		nHolders := 0
		for _, f := range c.p.Funcs {
			if pkgShort(f) != "fsm" || isTestFile(c.p, f.Pos()) || f.Parent() != nil {
				continue
			}
			if f == l.poolAdd || f == l.poolSub || f == setPool {
				continue // the ledger primitives persist inside (C04.R4 confines raw writers)
			}
			// pool objects this function holds: *Pool parameters and GetPool results
			var held []ssa.Value
			for _, pa := range f.Params {
				if nt := namedOf(pa.Type()); nt != nil && nt.Obj().Name() == "Pool" && nt.Obj().Pkg().Name() == "fsm" {
					held = append(held, pa)
				}
			}
			instrs(f, func(in ssa.Instruction) {
				if ex, ok := in.(*ssa.Extract); ok && ex.Index == 0 {
					if call, ok := ex.Tuple.(*ssa.Call); ok && callIs(call.Common(), getPool) {
						held = append(held, ex)
					}
				}
			})
			if f.Signature.Recv() == nil || !strings.HasSuffix(f.Signature.Recv().Type().String(), "fsm.StateMachine") {
				continue
			}
			// all held objects of a function are treated as one family when they meet in a phi (p = param or re-loaded)
			family := map[ssa.Value]bool{}
			for _, pv := range held {
				family[pv] = true
			}
			cells := map[ssa.Value]bool{}
			for changed := true; changed; {
				changed = false
				instrs(f, func(in ssa.Instruction) {
					switch x := in.(type) {
					case *ssa.Phi:
						if !family[x] {
							for _, e := range x.Edges {
								if family[e] {
									family[x] = true
									changed = true
								}
							}
						}
					case *ssa.Store:
						// a held object kept in a variable cell (captured by a closure)
						if a, ok := x.Addr.(*ssa.Alloc); ok && family[x.Val] && !cells[a] {
							cells[a] = true
							changed = true
						}
					case *ssa.UnOp:
						if cells[x.X] && !family[x] {
							family[x] = true
							changed = true
						}
					}
				})
			}
			if len(family) == 0 {
				continue
			}
			isMut := func(in ssa.Instruction) bool {
				switch x := in.(type) {
				case *ssa.Store:
					if fa, ok := x.Addr.(*ssa.FieldAddr); ok && family[fa.X] && fieldOfAddr(fa) == poolAmount {
						return true
					}
				case ssa.CallInstruction:
					if callee := x.Common().StaticCallee(); callee != nil && inCanopy(callee) && callee != setPool {
						for ai, a := range x.Common().Args {
							if family[a] && writesAmount(callee, ai, 0) {
								return true
							}
						}
					}
				}
				return false
			}
			mut := false
			instrs(f, func(in ssa.Instruction) {
				if isMut(in) {
					mut = true
				}
			})
			if !mut {
				continue
			}
			nHolders++
			c.mpt(mptSpec{
				rule: "R3", fn: f, events: evSet{},
				extraEv: func(in ssa.Instruction) string {
					if isMut(in) {
						return "mutate"
					}
					if cc := callCommon(in); cc != nil && callIs(cc, setPool) && len(cc.Args) == 2 && family[cc.Args[1]] {
						return "SetPool(held)"
					}
					return ""
				},
				resets:    map[string][]string{"mutate": {"SetPool(held)"}},
				atom:      paramAtom("persist"),
				target:    tgtOkReturn("ok-return"),
				reqs:      func(string) []string { return []string{"!seen:mutate|seen:SetPool(held)|@persist=F"} },
				minTarget: 1,
			})
		}
		r.Analysed["pool_holders_that_mutate"] = nHolders
	}

	// ------------------------------------------------------------------ R4
	r.Rule("R4", "PATH", "settle once: in HandleReceiptsForOurLockedBatch the locked batch (the atomic lock that also guards against settling the counter chain's batch twice) is deleted only after the counter chain's ReceiptHash equalled the hash of our locked batch", 1)
	hr := c.fn("fsm.(*StateMachine).HandleReceiptsForOurLockedBatch")
	smDelete := c.fn("fsm.(*StateMachine).Delete")
	bytesEqual := lookupStd(c.p, "bytes", "Equal")
	if hr != nil && smDelete != nil && r.Anchor(bytesEqual != nil, "bytes.Equal") {
		c.mpt(mptSpec{
			rule: "R4", fn: hr, events: evSet{},
			extraEv: func(in ssa.Instruction) string {
				if cc := callCommon(in); cc != nil && callIs(cc, bytesEqual) && len(cc.Args) == 2 {
					a, b := c.p.path(cc.Args[0]), c.p.path(cc.Args[1])
					isRemote := func(p string) bool { return p == "$1.ReceiptHash" }
					isLocal := func(p string) bool { return strings.Contains(p, "GetDexBatch(") && strings.HasSuffix(p, ".Hash()") }
					if (isRemote(a) && isLocal(b)) || (isRemote(b) && isLocal(a)) {
						return "ackHashEqual"
					}
				}
				return ""
			},
			target: func(in ssa.Instruction, st *PState, e *pathEngine) string {
				if cc := callCommon(in); cc != nil && callIs(cc, smDelete) {
					if _, isDefer := in.(*ssa.Defer); !isDefer && strings.Contains(c.p.path(argOf(in.(ssa.CallInstruction), 0)), "KeyForLockedBatch(") {
						return "unlock"
					}
				}
				return ""
			},
			reqs:      func(string) []string { return []string{"ackHashEqual#0=T"} },
			minTarget: 1,
		})
	}
}
