package main

import (
	"fmt"
	"go/token"
	"go/types"
	"sort"
	"strings"

	"golang.org/x/tools/go/ssa"
)

func init() { register("C18", c18) }

// C18 — Multiplexed peer messaging (structural).
func c18(c *ctx) {
	r := c.r
	r.Explain = "Static decision of the multiplexer's structure: (R1) lockset — every packet of a data message is queued with the stream mutex held (the only unlocked callers of queueSend are the heartbeat senders, which queue one self-contained packet on the dedicated heartbeat stream); (R2) the reassembly buffer has one reader: Stream.msgAssembler is touched only by handlePacket/NewStreams/cleanup, handlePacket is called only from the receive service, which is started once per connection; " +
		"(R3) the size cap dominates the append, the over-limit edge returns an error and the receive service closes the connection on any handlePacket error; (R4) every named topic has a stream and a send arm; (R5) a packet carries the topic of the stream it is queued on, Eof marks exactly the last chunk, on receipt the stream is chosen by the packet's topic and the inbox/sender are the stream's own."
	r.NotCovered = []string{"data-race freedom in general (needs the race detector; R1/R2 are the lockset part)", "delivery under queue timeouts and full inboxes (messages may be dropped whole: allowed by 'or not at all')", "byte equality of reassembled messages (value-level)"}
	r.Trusted = []string{"Go channel FIFO order", "the encrypted transport delivers frames in order (C17)"}

	queueSends := c.fn("p2p.(*Stream).queueSends")
	queueSend := c.fn("p2p.(*Stream).queueSend")
	handlePacket := c.fn("p2p.(*Stream).handlePacket")
	send := c.fn("p2p.(*MultiConn).Send")
	sendSvc := c.fn("p2p.(*MultiConn).startSendService")
	recvSvc := c.fn("p2p.(*MultiConn).startReceiveService")
	start := c.fn("p2p.(*MultiConn).Start")
	newStreams := c.fn("p2p.(*P2P).NewStreams")
	muF := c.field("p2p", "Stream", "mu")
	asmF := c.field("p2p", "Stream", "msgAssembler")
	if queueSends == nil || queueSend == nil || handlePacket == nil || send == nil || sendSvc == nil || recvSvc == nil || start == nil || newStreams == nil || muF == nil || asmF == nil {
		return
	}
	hbVal := ""
	if o, ok := c.p.pkg("p2p").Types.Scope().Lookup("heartbeatTopic").(*types.Const); ok {
		hbVal = o.Val().ExactString()
	}
	if !r.Anchor(hbVal != "", "p2p.heartbeatTopic") {
		return
	}

	// ------------------------------------------------------------------ R1
	r.Rule("R1", "LOCK", "contiguity: in Stream.queueSends every queueSend happens with s.mu held (Lock taken, Unlock only deferred); every other caller of queueSend queues a single Eof packet on the heartbeat stream", 3)
	lockEv := func(in ssa.Instruction) string {
		cc := callCommon(in)
		if cc == nil {
			return ""
		}
		n := calleeName(cc)
		if (n == "(*sync.Mutex).Lock" || n == "(*sync.Mutex).Unlock") && len(cc.Args) == 1 && c.p.path(cc.Args[0]) == "&$0.mu" {
			return strings.TrimPrefix(n, "(*sync.Mutex).")
		}
		return ""
	}
	c.mpt(mptSpec{rule: "R1", fn: queueSends, events: evSet{}, extraEv: lockEv,
		resets: map[string][]string{"Unlock": {"Lock"}},
		target: tgtCall("queueSend", queueSend),
		reqs:   func(string) []string { return []string{"seen:Lock", "deferred:Unlock"} }, minTarget: 1})
	for _, s := range c.p.callSitesOf(queueSend) {
		if !inCanopy(s.Caller) || isTestFile(c.p, s.Site.Pos()) || enclosing(s.Caller) == queueSends {
			continue
		}
		recv := c.p.path(recvOf(s.Site))
		pkt := argOf(s.Site, 0)
		eof := litField(pkt, c.p.Field("p2p", "Packet", "Eof"))
		sid := litField(pkt, c.p.Field("p2p", "Packet", "StreamId"))
		okEof := false
		if eof != nil {
			if b, isC := boolConst(eof); isC && b {
				okEof = true
			}
		}
		ok := has(recv, ".streams["+hbVal+"]") && okEof && sid != nil && c.p.path(sid) == hbVal
		r.Check(ok, "R1/unlocked-queueSend/"+fnName(enclosing(s.Caller)), c.p.Pos(s.Site.Pos()), "single self-contained heartbeat packet on the heartbeat stream",
			fnName(s.Caller)+" calls queueSend without the stream mutex on "+recv+": packets of a multi-packet message on that stream could be interleaved and merged by the receiver")
	}

	// ------------------------------------------------------------------ R2
	r.Rule("R2", "WHO", "one reassembler: Stream.msgAssembler is accessed only in handlePacket, NewStreams and cleanup; handlePacket is called only by startReceiveService; the receive service is started only by MultiConn.Start, which only NewConnection calls", 5)
	allowedAsm := map[string]bool{"(*p2p.Stream).handlePacket": true, "(*p2p.P2P).NewStreams": true, "(*p2p.Stream).cleanup": true}
	nAcc := 0
	for _, f := range c.p.Funcs {
		if !inCanopy(f) || isTestFile(c.p, f.Pos()) {
			continue
		}
		instrs(f, func(in ssa.Instruction) {
			fa, ok := in.(*ssa.FieldAddr)
			if !ok || fieldOfAddr(fa) != asmF {
				return
			}
			nAcc++
			enc := fnName(enclosing(f))
			if !allowedAsm[enc] {
				r.Bad("R2/msgAssembler-access/"+enc, c.p.Pos(in.Pos()), "the reassembly buffer is accessed in "+enc+": a second reader/writer can truncate or merge messages")
			}
		})
	}
	r.Check(nAcc >= 3, "R2/msgAssembler-access/known-sites", c.p.Pos(handlePacket.Pos()), fmt.Sprintf("%d accesses, all in handlePacket/NewStreams/cleanup", nAcc), "fewer accesses to msgAssembler than known (rule needs re-reading)")
	c.whoCalls("R2", handlePacket, allow{recvSvc: "the single receive loop of a connection"})
	// service start sites: `go c.startReceiveService()` only in Start
	for _, svc := range []*ssa.Function{recvSvc, sendSvc} {
		n := 0
		for _, f := range c.p.Funcs {
			if pkgShort(f) != "p2p" || isTestFile(c.p, f.Pos()) {
				continue
			}
			instrs(f, func(in ssa.Instruction) {
				if cc := callCommon(in); cc != nil && callIs(cc, svc) {
					n++
					_, isGo := in.(*ssa.Go)
					r.Check(enclosing(f) == start && isGo, "R2/service-start/"+fnName(svc), c.p.Pos(in.Pos()), "started as a goroutine by MultiConn.Start", fnName(svc)+" is started from "+fnName(f)+": two service loops on one connection would split a stream's packets between them")
				}
			})
		}
		r.Check(n == 1, "R2/service-start-count/"+fnName(svc), c.p.Pos(start.Pos()), "started exactly once", fmt.Sprintf("%s is started at %d sites, expected one", fnName(svc), n))
	}
	c.whoCalls("R2", start, allow{c.fnQuiet("p2p.(*P2P).NewConnection"): "once per new connection"})

	// ------------------------------------------------------------------ R3
	r.Rule("R3", "MPT", "cap before append: handlePacket appends to the reassembly buffer only on the false edge of maxMessageSize < len(buffer)+len(packet); the true edge empties the buffer and returns an error; the receive service stops reading after any handlePacket error", 3)
	maxVal := ""
	if o, ok := c.p.pkg("p2p").Types.Scope().Lookup("maxMessageSize").(*types.Const); ok {
		maxVal = o.Val().ExactString()
	}
	r.Anchor(maxVal != "", "p2p.maxMessageSize")
	overLimit := ordAtom("overLimit", token.LSS,
		func(x ssa.Value) bool { return c.p.path(x) == maxVal },
		func(y ssa.Value) bool {
			return c.p.path(y) == "(len($0.msgAssembler) + len($2.Bytes))" || c.p.path(y) == "(len($2.Bytes) + len($0.msgAssembler))"
		})
	c.mpt(mptSpec{rule: "R3", fn: handlePacket, events: evSet{}, atom: overLimit,
		target: func(in ssa.Instruction, st *PState, e *pathEngine) string {
			if cc := callCommon(in); cc != nil {
				if b, ok := cc.Value.(*ssa.Builtin); ok && b.Name() == "append" && c.p.path(cc.Args[0]) == "$0.msgAssembler" {
					return "append-to-buffer"
				}
			}
			return tgtOkReturn("ok-return")(in, st, e)
		},
		reqs: func(string) []string { return []string{"@overLimit=F"} }, minTarget: 2})
	waitWire := c.fn("p2p.(*MultiConn).waitForAndHandleWireBytes")
	connError := c.fn("p2p.(*MultiConn).Error")
	if waitWire != nil && connError != nil {
		c.mpt(mptSpec{rule: "R3", fn: recvSvc, events: evSet{"handlePacket": {handlePacket}, "Error": {connError}},
			target: tgtCall("next-read", waitWire),
			reqs:   func(string) []string { return []string{"!seen:handlePacket|handlePacket.ok"} }, minTarget: 1})
	}

	// ------------------------------------------------------------------ R8
	r.Rule("R8", "PATH", "a finished message leaves nothing behind: on every successful return of handlePacket after a packet marked Eof was appended, the reassembly buffer has been emptied (re-sliced to length 0, set to nil or replaced by an empty slice) after the last append — whether or not the inbox accepted the message; bytes left behind would be glued in front of the next message on that topic", 1)
	if eofF := c.field("p2p", "Packet", "Eof"); eofF != nil {
		isEmpty := func(v ssa.Value) bool {
			switch x := v.(type) {
			case *ssa.Slice:
				if k, ok := x.High.(*ssa.Const); ok && k.Value != nil && k.Int64() == 0 {
					return true
				}
			case *ssa.Const:
				return x.IsNil()
			case *ssa.MakeSlice:
				if k, ok := x.Len.(*ssa.Const); ok && k.Value != nil && k.Int64() == 0 {
					return true
				}
			}
			return false
		}
		bufEv := func(in ssa.Instruction) string {
			if f, _, val := storeField(in); f != nil && f == asmF {
				if isEmpty(val) {
					return "empty"
				}
				return "fill"
			}
			return ""
		}
		c.mpt(mptSpec{rule: "R8", fn: handlePacket, events: evSet{}, extraEv: bufEv, atom: fieldLoadAtom("eof", eofF),
			resets: map[string][]string{"fill": {"empty"}},
			target: tgtOkReturn("ok-return"),
			reqs:   func(string) []string { return []string{"@eof=F|seen:empty"} }, minTarget: 1})
	}

	// ------------------------------------------------------------------ R4
	r.Rule("R4", "AGREE", "topics: every lib.Topic constant below INVALID has a receive arm on its stream's sendQueue in startSendService and NewStreams creates a stream for every id below INVALID (the heartbeat stream explicitly)", 8)
	var topics []string
	topicVal := map[string]string{}
	libScope := c.p.pkg("lib").Types.Scope()
	topicT := libScope.Lookup("Topic")
	invalid := ""
	for _, n := range libScope.Names() {
		cst, ok := libScope.Lookup(n).(*types.Const)
		if !ok || topicT == nil || !types.Identical(cst.Type(), topicT.Type()) {
			continue
		}
		if n == "Topic_INVALID" {
			invalid = cst.Val().ExactString()
			continue
		}
		topics = append(topics, n)
		topicVal[n] = cst.Val().ExactString()
	}
	sort.Strings(topics)
	arms := map[string]bool{}
	instrs(sendSvc, func(in ssa.Instruction) {
		if sel, ok := in.(*ssa.Select); ok {
			for _, st := range sel.States {
				p := c.p.path(st.Chan)
				if i := strings.Index(p, ".streams["); i >= 0 && strings.HasSuffix(p, "].sendQueue") {
					arms[p[i+9:len(p)-11]] = true
				}
			}
		}
	})
	for _, n := range topics {
		r.Check(arms[topicVal[n]], "R4/send-arm/"+n, c.p.Pos(sendSvc.Pos()), "send service drains the "+n+" queue", "startSendService has no receive arm for the send queue of "+n+": messages queued on that topic would never be written to the wire")
	}
	// NewStreams: a loop over range Topic_INVALID plus the explicit heartbeat stream
	loopAll, hbStream := false, false
	instrs(newStreams, func(in ssa.Instruction) {
		if b, ok := in.(*ssa.BinOp); ok && isOrdering(b.Op) && invalid != "" {
			if m, _ := ordMatchV(b, token.LSS, func(ssa.Value) bool { return true }, func(y ssa.Value) bool { return c.p.path(y) == invalid }); m {
				loopAll = true
			}
		}
		if mu, ok := in.(*ssa.MapUpdate); ok && c.p.path(mu.Key) == hbVal {
			hbStream = true
		}
	})
	r.Check(loopAll, "R4/NewStreams/all-ids", c.p.Pos(newStreams.Pos()), "creates a stream for every id below Topic_INVALID", "NewStreams no longer iterates over every topic id below Topic_INVALID")
	r.Check(hbStream, "R4/NewStreams/heartbeat", c.p.Pos(newStreams.Pos()), "creates the dedicated heartbeat stream", "NewStreams no longer creates the heartbeat stream")
	// each created stream's inbox is the inbox of its own topic
	instrs(newStreams, func(in ssa.Instruction) {
		if fv, base, val := storeField(in); fv != nil && fv.Name() == "inbox" && !isNilConst(val) {
			topicV := litField(base, c.p.Field("p2p", "Stream", "topic"))
			pi, pt := c.p.path(val), "?"
			if topicV != nil {
				pt = c.p.path(topicV)
			}
			r.Check(pi == "$0.Inbox("+pt+")", "R4/NewStreams/inbox-of-own-topic", c.p.Pos(in.Pos()), "stream.inbox = p.Inbox(stream.topic)", "a stream for topic "+pt+" delivers into "+pi+": messages would surface on another topic's inbox")
		}
	})

	// ------------------------------------------------------------------ R5
	r.Rule("R5", "FLOW", "right topic: Send stamps every packet with the topic whose stream it queues on and Eof marks exactly the last chunk; the receive service picks the stream by the packet's StreamId and hands handlePacket the connection's authenticated peer info", 5)
	pktT := c.p.Named("p2p", "Packet")
	if pktT != nil {
		instrs(send, func(in ssa.Instruction) {
			if a, ok := in.(*ssa.Alloc); ok {
				if nt := namedOf(a.Type()); nt != nil && nt.Obj() == pktT.Obj() {
					sid := litField(a, c.p.Field("p2p", "Packet", "StreamId"))
					eof := litField(a, c.p.Field("p2p", "Packet", "Eof"))
					ps, pe := "<unset>", "<unset>"
					if sid != nil {
						ps = c.p.path(sid)
					}
					if eof != nil {
						pe = c.p.path(eof)
					}
					r.Check(ps == "$1", "R5/Send/packet-topic", c.p.Pos(in.Pos()), "Packet.StreamId = topic", "Send stamps packets with StreamId "+ps+" instead of its topic parameter")
					r.Check(strings.Contains(pe, "== (len(") && strings.HasSuffix(pe, " - 1))"), "R5/Send/eof-last-chunk", c.p.Pos(in.Pos()), "Eof = (i == len(chunks)-1)", "Send sets Eof to "+pe+", expected i == len(chunks)-1: the receiver would cut or merge messages")
				}
			}
		})
		for _, cs := range callsIn(send, false, queueSends) {
			p := c.p.path(recvOf(cs))
			r.Check(strings.HasPrefix(p, "$0.streams[$1]"), "R5/Send/stream-of-topic", c.p.Pos(cs.Pos()), "queued on c.streams[topic]", "Send queues on "+p+" instead of the stream of its topic")
		}
		for _, cs := range callsIn(recvSvc, true, handlePacket) {
			p, info := c.p.path(recvOf(cs)), c.p.path(argOf(cs, 0))
			r.Check(has(p, ".streams[") && has(p, ".StreamId]"), "R5/receive/stream-by-packet-topic", c.p.Pos(cs.Pos()), "stream = c.streams[packet.StreamId]", "the receive service hands the packet to "+p+", not to the stream named by the packet")
			r.Check(info == "$0.peerInfo", "R5/receive/authenticated-sender", c.p.Pos(cs.Pos()), "sender = the connection's peer info", "handlePacket is given sender "+info+" instead of the connection's authenticated peer info")
		}
		// the delivered message carries that sender
		mmT := c.p.Named("lib", "MessageAndMetadata")
		if mmT != nil {
			instrs(handlePacket, func(in ssa.Instruction) {
				if a, ok := in.(*ssa.Alloc); ok {
					if nt := namedOf(a.Type()); nt != nil && nt.Obj() == mmT.Obj() {
						s := litField(a, c.p.Field("lib", "MessageAndMetadata", "Sender"))
						ps := "<unset>"
						if s != nil {
							ps = c.p.path(s)
						}
						r.Check(ps == "$1", "R5/handlePacket/sender", c.p.Pos(in.Pos()), "Sender = peerInfo parameter", "the delivered message is attributed to "+ps)
					}
				}
			})
		}
	}

	// ------------------------------------------------------------------ R6
	r.Rule("R6", "ALIAS", "a delivered message owns its bytes: the Message put into the inbox by handlePacket does not share a backing array with the reassembly buffer while that buffer is re-used (re-sliced, not replaced) for the next message", 2)
	if mmT := c.p.Named("lib", "MessageAndMetadata"); mmT != nil {
		asmF := c.field("p2p", "Stream", "msgAssembler")
		msgF := c.p.Field("lib", "MessageAndMetadata", "Message")
		if asmF != nil && r.Anchor(msgF != nil, "lib.MessageAndMetadata.Message") {
			// does handlePacket keep the buffer's backing array (s.msgAssembler = s.msgAssembler[:0]) ?
			reuse := false
			for _, st := range storesTo(handlePacket, asmF) {
				if p := c.p.path(st.Val); strings.HasPrefix(p, "$0.msgAssembler[") {
					reuse = true
				}
			}
			n := 0
			instrs(handlePacket, func(in ssa.Instruction) {
				a, ok := in.(*ssa.Alloc)
				if !ok {
					return
				}
				if nt := namedOf(a.Type()); nt == nil || nt.Obj() != mmT.Obj() {
					return
				}
				n++
				v := litField(a, msgF)
				pm := "<unset>"
				if v != nil {
					pm = c.p.path(v)
				}
				aliases := strings.Contains(pm, "$0.msgAssembler") && !strings.HasPrefix(pm, "bytes.Clone(") && !strings.HasPrefix(pm, "slices.Clone(")
				r.Check(!(aliases && reuse), "R6/handlePacket/message-bytes", c.p.Pos(in.Pos()), "Message = "+pm+" (buffer re-used: "+fmt.Sprint(reuse)+")",
					"the message delivered to the inbox is "+pm+", the reassembly buffer itself, and handlePacket keeps re-using that buffer's backing array: the next packets overwrite a message the consumer is still reading (two messages merged)")
			})
			r.Check(n >= 1, "R6/handlePacket/delivers", c.p.Pos(handlePacket.Pos()), "handlePacket builds the delivered message", "no MessageAndMetadata is built in handlePacket any more (rule needs re-reading)")
		}
	}

	// ------------------------------------------------------------------ R7
	r.Rule("R7", "PATH", "a peer is registered under the key it proved: on every path of AddPeer that reaches PeerSet.Add / AddForce, the registered PeerInfo's Address.PublicKey has been set from the connection's handshake-authenticated key (whatever key the peer was dialled under)", 1)
	addPeer := c.fn("p2p.(*P2P).AddPeer")
	psAdd, psAddForce := c.fn("p2p.(*PeerSet).Add"), c.fnQuiet("p2p.(*PeerSet).AddForce")
	pkF := c.p.Field("lib", "PeerAddress", "PublicKey")
	if addPeer != nil && psAdd != nil && r.Anchor(pkF != nil, "lib.PeerAddress.PublicKey") {
		regs := []*ssa.Function{psAdd}
		if psAddForce != nil {
			regs = append(regs, psAddForce)
		}
		c.mpt(mptSpec{
			rule: "R7", fn: addPeer, events: evSet{},
			extraEv: func(in ssa.Instruction) string {
				if fv, _, val := storeField(in); fv != nil && fv == pkF {
					if pth := c.p.path(val); strings.Contains(pth, "NewConnection(") && strings.HasSuffix(pth, ".Address.PublicKey") {
						return "authKeySet"
					}
				}
				return ""
			},
			target:    tgtCall("register", regs...),
			reqs:      func(string) []string { return []string{"seen:authKeySet"} },
			minTarget: 1,
		})
	}
}
