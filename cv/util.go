package main

import (
	"go/constant"
	"go/token"
	"go/types"
	"sort"
	"strings"

	"golang.org/x/tools/go/callgraph"
	"golang.org/x/tools/go/ssa"
)

// origin returns the generic origin of an instantiated function, or f itself.
func origin(f *ssa.Function) *ssa.Function {
	if f == nil {
		return nil
	}
	if o := f.Origin(); o != nil {
		return o
	}
	return f
}

// staticCallee returns the statically resolved callee of a call (generic instantiations mapped to their origin).
func staticCallee(c *ssa.CallCommon) *ssa.Function {
	if c == nil {
		return nil
	}
	return origin(c.StaticCallee())
}

// callIs reports whether the call may invoke target: either statically, or — for an interface
// method call — by name when target's receiver implements the interface (class hierarchy rule).
func callIs(c *ssa.CallCommon, target *ssa.Function) bool {
	if c == nil || target == nil {
		return false
	}
	if sc := staticCallee(c); sc != nil {
		if sc == origin(target) {
			return true
		}
		// slices.Equal on byte slices is bytes.Equal (one rule, either library spelling)
		if t := origin(target); t.Pkg != nil && sc.Pkg != nil && t.Name() == "Equal" && sc.Name() == "Equal" && t.Pkg.Pkg.Path() == "bytes" && sc.Pkg.Pkg.Path() == "slices" {
			return true
		}
		return false
	}
	if c.IsInvoke() {
		if c.Method.Name() != target.Name() {
			return false
		}
		sig := target.Signature
		if sig.Recv() == nil {
			return false
		}
		it, ok := c.Value.Type().Underlying().(*types.Interface)
		if !ok {
			return false
		}
		rt := sig.Recv().Type()
		return types.Implements(rt, it) || types.Implements(types.NewPointer(rt), it)
	}
	return false
}

// callIsAny reports whether the call may invoke one of the targets, returning which.
func callIsAny(c *ssa.CallCommon, targets ...*ssa.Function) *ssa.Function {
	for _, t := range targets {
		if callIs(c, t) {
			return t
		}
	}
	return nil
}

// callCommon returns the CallCommon of an instruction if it is a call, go or defer.
func callCommon(in ssa.Instruction) *ssa.CallCommon {
	if ci, ok := in.(ssa.CallInstruction); ok {
		return ci.Common()
	}
	return nil
}

// calleeName gives a readable name for whatever a call invokes.
func calleeName(c *ssa.CallCommon) string {
	if c == nil {
		return ""
	}
	if sc := c.StaticCallee(); sc != nil {
		return fnName(sc)
	}
	if c.IsInvoke() {
		return "(" + types.TypeString(c.Value.Type(), shortQual) + ")." + c.Method.Name()
	}
	return "dynamic:" + c.Value.Name()
}

func shortQual(p *types.Package) string {
	return strings.TrimPrefix(strings.TrimPrefix(p.Path(), modPath+"/"), modPath)
}

// isNilConst reports whether v is the nil constant.
func isNilConst(v ssa.Value) bool {
	c, ok := v.(*ssa.Const)
	return ok && c.Value == nil && !isBasicType(c.Type())
}

func isBasicType(t types.Type) bool {
	_, ok := t.Underlying().(*types.Basic)
	return ok
}

// boolConst returns (value, true) if v is a boolean constant.
func boolConst(v ssa.Value) (bool, bool) {
	c, ok := v.(*ssa.Const)
	if !ok || c.Value == nil || c.Value.Kind() != constant.Bool {
		return false, false
	}
	return constant.BoolVal(c.Value), true
}

// isErrorType reports whether t is an interface type with an Error() string method (error, lib.ErrorI).
func isErrorType(t types.Type) bool {
	it, ok := t.Underlying().(*types.Interface)
	if !ok {
		return false
	}
	for i := 0; i < it.NumMethods(); i++ {
		if it.Method(i).Name() == "Error" {
			return true
		}
	}
	return false
}

// fieldOfAddr returns the struct field a FieldAddr/Field selects.
func fieldOfAddr(v ssa.Value) *types.Var {
	switch x := v.(type) {
	case *ssa.FieldAddr:
		st := derefStruct(x.X.Type())
		if st != nil {
			return st.Field(x.Field)
		}
	case *ssa.Field:
		st := derefStruct(x.X.Type())
		if st != nil {
			return st.Field(x.Field)
		}
	}
	return nil
}

func derefStruct(t types.Type) *types.Struct {
	if p, ok := t.Underlying().(*types.Pointer); ok {
		t = p.Elem()
	}
	st, _ := t.Underlying().(*types.Struct)
	return st
}

// loadedField returns the field var if v is a load `*(&x.f)` or a value field read `x.f`.
func loadedField(v ssa.Value) (*types.Var, ssa.Value) {
	switch x := v.(type) {
	case *ssa.UnOp:
		if x.Op == token.MUL {
			if fa, ok := x.X.(*ssa.FieldAddr); ok {
				return fieldOfAddr(fa), fa.X
			}
		}
	case *ssa.Field:
		return fieldOfAddr(x), x.X
	}
	return nil, nil
}

// storeField returns the field var if in is a store into a struct field, with base and stored value.
func storeField(in ssa.Instruction) (*types.Var, ssa.Value, ssa.Value) {
	st, ok := in.(*ssa.Store)
	if !ok {
		return nil, nil, nil
	}
	if fa, ok := st.Addr.(*ssa.FieldAddr); ok {
		return fieldOfAddr(fa), fa.X, st.Val
	}
	return nil, nil, nil
}

// callers returns the distinct canopy callers (functions) of f in the call graph with one call site each.
type callSite struct {
	Caller *ssa.Function
	Site   ssa.CallInstruction
}

func (p *Prog) callSitesOf(f *ssa.Function) []callSite {
	var out []callSite
	seen := map[ssa.CallInstruction]bool{}
	add := func(n *callgraph.Node) {
		if n == nil {
			return
		}
		for _, e := range n.In {
			if e.Site == nil || seen[e.Site] {
				continue
			}
			seen[e.Site] = true
			out = append(out, callSite{e.Caller.Func, e.Site})
		}
	}
	add(p.CG.Nodes[f])
	// generic instantiations
	for fn, n := range p.CG.Nodes {
		if fn != nil && fn != f && fn.Origin() == f {
			add(n)
		}
	}
	sort.Slice(out, func(i, j int) bool {
		if out[i].Site.Pos() != out[j].Site.Pos() {
			return out[i].Site.Pos() < out[j].Site.Pos()
		}
		return fnName(out[i].Caller) < fnName(out[j].Caller)
	})
	return out
}

// enclosing returns the outermost named function an anonymous function is nested in; a transparent helper (newfn.go:
// a function that did not exist on the reference tree and has one call site) is folded into its caller.
func enclosing(f *ssa.Function) *ssa.Function {
	f = rawEnclosing(f)
	for i := 0; i < 4 && f != nil && theProg != nil; i++ {
		site := theProg.transparentSite(f)
		if site == nil {
			break
		}
		f = rawEnclosing(site.Parent())
	}
	return f
}

func inCanopyRaw(f *ssa.Function) bool {
	f = rawEnclosing(origin(f))
	return f != nil && f.Pkg != nil && isCanopyPath(f.Pkg.Pkg.Path())
}

func inCanopy(f *ssa.Function) bool {
	f = enclosing(origin(f))
	if f == nil {
		return false
	}
	if f.Pkg == nil {
		return false
	}
	return isCanopyPath(f.Pkg.Pkg.Path())
}

func isTestFile(p *Prog, pos token.Pos) bool {
	return strings.HasSuffix(p.Fset.Position(pos).Filename, "_test.go")
}

// pkgShort returns "fsm", "lib/crypto" ... for a canopy function.
func pkgShort(f *ssa.Function) string {
	f = enclosing(origin(f))
	if f == nil || f.Pkg == nil {
		return ""
	}
	return strings.TrimPrefix(f.Pkg.Pkg.Path(), modPath+"/")
}

// reachable computes the set of canopy functions reachable from roots in the call graph, not
// descending into functions for which cut returns true.
func (p *Prog) reachable(roots []*ssa.Function, cut func(*ssa.Function) bool) map[*ssa.Function]bool {
	seen := map[*ssa.Function]bool{}
	var stack []*ssa.Function
	for _, r := range roots {
		if r != nil && !seen[r] {
			seen[r] = true
			stack = append(stack, r)
		}
	}
	for len(stack) > 0 {
		f := stack[len(stack)-1]
		stack = stack[:len(stack)-1]
		n := p.CG.Nodes[f]
		if n == nil {
			continue
		}
		for _, e := range n.Out {
			c := e.Callee.Func
			if c == nil || seen[c] {
				continue
			}
			if cut != nil && cut(c) {
				continue
			}
			seen[c] = true
			stack = append(stack, c)
		}
		// anonymous functions defined inside f are reachable when f is (closures passed around)
		for _, a := range f.AnonFuncs {
			if !seen[a] && (cut == nil || !cut(a)) {
				seen[a] = true
				stack = append(stack, a)
			}
		}
	}
	return seen
}

func sortedFuncs(m map[*ssa.Function]bool) []*ssa.Function {
	var out []*ssa.Function
	for f := range m {
		out = append(out, f)
	}
	sort.Slice(out, func(i, j int) bool {
		if fnName(out[i]) != fnName(out[j]) {
			return fnName(out[i]) < fnName(out[j])
		}
		return out[i].Pos() < out[j].Pos()
	})
	return out
}

// instrs iterates over all instructions of a function in block order.
func instrs(f *ssa.Function, fn func(ssa.Instruction)) {
	if theProg != nil && theProg.anyTransparent() {
		// virtual inlining at the iteration level (newfn.go): a transparent helper's instructions are visited as part of
		// its single caller and never on their own
		if theProg.transparentSite(f) != nil {
			return
		}
		for _, g := range bodyFuncs(f, false) {
			for _, b := range g.Blocks {
				for _, in := range b.Instrs {
					fn(in)
				}
			}
		}
		return
	}
	for _, b := range f.Blocks {
		for _, in := range b.Instrs {
			fn(in)
		}
	}
}

// withAnons returns f and all functions nested in it.
func withAnons(f *ssa.Function) []*ssa.Function {
	out := []*ssa.Function{f}
	for _, a := range f.AnonFuncs {
		out = append(out, withAnons(a)...)
	}
	return out
}
