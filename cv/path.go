package main

import (
	"fmt"
	"go/token"
	"go/types"
	"sort"
	"strings"

	"golang.org/x/tools/go/ssa"
)

// The path engine (MPT and PAIR of DESIGN.md): a forward, path-sensitive dataflow over the SSA
// blocks of one function (closures called or deferred in place are inlined). The abstract state is
//   - facts:   three-valued knowledge about *tracked* values (results of event calls, rule-named
//              atoms, values that flow into the function's results), learnt on branch edges;
//   - seen:    how often each rule-named event has happened on this path (saturating);
//   - defers:  events registered by `defer`, fired at RunDefers;
//   - alias:   which operand a tracked phi currently stands for, and what a local cell holds.
// States are kept per block as a set, so a value tested twice is correlated and infeasible
// combinations are pruned rather than reported. Nothing is evaluated: facts come only from the
// conditions the code itself branches on.

type Tri int8

const (
	Unknown Tri = 0
	True    Tri = 1
	False   Tri = -1
)

func (t Tri) not() Tri { return -t }
func (t Tri) String() string {
	switch t {
	case True:
		return "T"
	case False:
		return "F"
	}
	return "?"
}

// PState is the abstract state on one path.
type PState struct {
	facts  map[string]Tri
	seen   map[string]int
	last   map[string]string // event -> value key of the last call instruction of that event
	defers []string          // deferred event names (order of registration)
	alias  map[string]string // phi/cell key -> key of the value it stands for
	trace  []string          // compact path description (block indices), for witnesses
	ret    *ssa.Return       // transient: the return instruction through which an analysed-in-place callee was left
}

func newPState() *PState {
	return &PState{facts: map[string]Tri{}, seen: map[string]int{}, last: map[string]string{}, alias: map[string]string{}}
}

func (s *PState) clone() *PState {
	n := newPState()
	for k, v := range s.facts {
		n.facts[k] = v
	}
	for k, v := range s.seen {
		n.seen[k] = v
	}
	for k, v := range s.last {
		n.last[k] = v
	}
	for k, v := range s.alias {
		n.alias[k] = v
	}
	n.defers = append([]string(nil), s.defers...)
	n.trace = append([]string(nil), s.trace...)
	return n
}

func (s *PState) key() string {
	var parts []string
	for k, v := range s.facts {
		if v != Unknown {
			parts = append(parts, "f"+k+"="+v.String())
		}
	}
	for k, v := range s.seen {
		if v > 0 {
			parts = append(parts, fmt.Sprintf("s%s=%d", k, v))
		}
	}
	for k, v := range s.last {
		parts = append(parts, "l"+k+"="+v)
	}
	for k, v := range s.alias {
		parts = append(parts, "a"+k+"="+v)
	}
	sort.Strings(parts)
	return strings.Join(parts, ";") + "|d" + strings.Join(s.defers, ",")
}

// describe renders the state for witnesses.
func (s *PState) describe() string {
	var parts []string
	for k, v := range s.facts {
		parts = append(parts, k+"="+v.String())
	}
	for k, v := range s.seen {
		parts = append(parts, fmt.Sprintf("seen(%s)=%d", k, v))
	}
	for k, v := range s.last {
		parts = append(parts, "last("+k+")="+v)
	}
	sort.Strings(parts)
	return strings.Join(parts, " ")
}

// SeenAll returns the event counters of this path (read-only).
func (s *PState) SeenAll() map[string]int { return s.seen }

// Seen reports how often the event occurred on this path.
func (s *PState) Seen(ev string) int { return s.seen[ev] }

// Fact returns what is known about a named atom.
func (s *PState) Fact(name string) Tri { return s.facts["@"+name] }

// Deferred reports whether an event is registered to run at function exit.
func (s *PState) Deferred(ev string) bool {
	for _, d := range s.defers {
		if d[strings.Index(d, "|")+1:] == ev {
			return true
		}
	}
	return false
}

// Res returns what is known about result #idx of the last call of event ev: for error/pointer/
// interface results True means "is nil", for booleans True means "is true".
func (s *PState) Res(ev string, idx int) Tri {
	l, ok := s.last[ev]
	if !ok {
		return Unknown
	}
	k := fmt.Sprintf("%s#%d", l, idx)
	// a call analysed in place: its result stands for what the callee returned on this path
	for i := 0; i < 8; i++ {
		a, ok := s.alias[k]
		if !ok {
			break
		}
		k = a
	}
	switch k {
	case "const:nil", "const:true":
		return True
	case "const:false", "const:nonnil":
		return False
	}
	return s.facts[k]
}

// PathRule is one instance of the engine.
type PathRule struct {
	Fn *ssa.Function
	// Event names an instruction as an event ("" = none). Called for every instruction.
	Event func(in ssa.Instruction) string
	// Atom names a boolean or nil-able value (a condition the rule cares about). neg = the value is the negation of the atom.
	Atom func(v ssa.Value) (name string, neg bool)
	// Resets lists, per event, the events whose seen-counter is cleared when it happens.
	Resets map[string][]string
	// Target returns a label if in is a point where At must be evaluated.
	Target func(in ssa.Instruction, st *PState, e *pathEngine) string
	// At evaluates the rule's requirement in a state reaching a target; "" = fine.
	At func(label string, in ssa.Instruction, st *PState, e *pathEngine) string
	// Inline says whether a statically called function is to be inlined (closures called in place always are).
	Inline func(f *ssa.Function) bool
	// KillAtoms names atoms invalidated by an instruction (e.g. a store to the field the atom reads).
	KillAtoms func(in ssa.Instruction) []string
}

// PathResult is what running a rule produced.
type PathResult struct {
	Targets   int            // number of (target instruction) reached
	States    int            // number of (target, state) pairs evaluated
	Bad       []PathWitness  // violations
	Undecided []string       // reasons the analysis could not decide (state cap, ...)
	Labels    map[string]int // per label count of distinct target instructions
	Blocks    int
	MaxStates int // largest number of distinct states kept for one block (the cap is maxStatesPerBlock)
}

type tgtKey struct {
	in    ssa.Instruction
	label string
}

type PathWitness struct {
	Label  string
	Pos    token.Pos
	Reason string
	Trace  string
}

type pathEngine struct {
	p       *Prog
	r       *PathRule
	res     *PathResult
	fnID    map[*ssa.Function]int
	retFlow map[ssa.Value]bool // values that flow into results of the functions analysed
	tgtSeen map[tgtKey]bool
	badSeen map[string]bool
	depth   int
	steps   int
	evErr   map[string]int                                        // event -> index of the error result of its call sites
	vals    map[string]ssa.Value                                  // value key -> value
	dfns    map[string]*ssa.Function                              // deferred closure id -> function
	fvCell  map[*ssa.FreeVar]ssa.Value                            // captured variable -> the value bound to it at the (single) MakeClosure site
	loadUse map[*ssa.Function]map[string]map[*ssa.BasicBlock]bool // per function: load key -> blocks from which a use of the load is reachable
}

const maxStatesPerBlock = 20000
const maxSteps = 3000000

// RunPath evaluates a rule over all paths of r.Fn.
func RunPath(p *Prog, r *PathRule) *PathResult {
	e := &pathEngine{p: p, r: r, res: &PathResult{Labels: map[string]int{}}, fnID: map[*ssa.Function]int{}, retFlow: map[ssa.Value]bool{},
		tgtSeen: map[tgtKey]bool{}, badSeen: map[string]bool{}, vals: map[string]ssa.Value{}, dfns: map[string]*ssa.Function{}, evErr: map[string]int{}}
	if r.Fn == nil || len(r.Fn.Blocks) == 0 {
		e.res.Undecided = append(e.res.Undecided, "function has no body")
		return e.res
	}
	e.run(r.Fn, newPState())
	return e.res
}

func (e *pathEngine) id(f *ssa.Function) int {
	if n, ok := e.fnID[f]; ok {
		return n
	}
	n := len(e.fnID)
	e.fnID[f] = n
	e.computeRetFlow(f)
	return n
}

func (e *pathEngine) computeRetFlow(f *ssa.Function) {
	var visit func(v ssa.Value)
	visit = func(v ssa.Value) {
		if v == nil || e.retFlow[v] {
			return
		}
		e.retFlow[v] = true
		if ph, ok := v.(*ssa.Phi); ok {
			for _, o := range ph.Edges {
				visit(o)
			}
		}
		if u, ok := v.(*ssa.UnOp); ok && u.Op == token.MUL {
			// load of a local cell (named result spilled because of defer): values stored into it flow
			if a, ok := u.X.(*ssa.Alloc); ok {
				for _, ref := range *a.Referrers() {
					if st, ok := ref.(*ssa.Store); ok && st.Addr == a {
						visit(st.Val)
					}
				}
			}
		}
	}
	for _, b := range f.Blocks {
		if len(b.Instrs) == 0 {
			continue
		}
		if ret, ok := b.Instrs[len(b.Instrs)-1].(*ssa.Return); ok {
			for _, o := range ret.Results {
				visit(o)
			}
		}
	}
}

// vkey is the canonical name of a value inside the analysis.
func (e *pathEngine) vkey(v ssa.Value) string {
	k := e.vkey0(v)
	if _, ok := e.vals[k]; !ok {
		e.vals[k] = v
	}
	return k
}

func (e *pathEngine) vkey0(v ssa.Value) string {
	switch x := v.(type) {
	case *ssa.Extract:
		return fmt.Sprintf("%s#%d", e.vkeyRaw(x.Tuple), x.Index)
	case *ssa.Call:
		if x.Type() != nil {
			if _, isTuple := x.Type().(*types.Tuple); !isTuple {
				return e.vkeyRaw(x) + "#0"
			}
		}
	}
	return e.vkeyRaw(v)
}

func (e *pathEngine) vkeyRaw(v ssa.Value) string {
	if f := v.Parent(); f != nil {
		return fmt.Sprintf("%d.%s", e.id(f), v.Name())
	}
	return v.Name()
}

// cellOf resolves an address to the local variable cell it denotes: an Alloc, or the Alloc a closure's free variable is
// bound to (followed through nested closures). nil if the address is not a local cell.
func (e *pathEngine) cellOf(addr ssa.Value) *ssa.Alloc {
	for i := 0; i < 4; i++ {
		switch x := addr.(type) {
		case *ssa.Alloc:
			return x
		case *ssa.FreeVar:
			if e.fvCell == nil {
				e.fvCell = map[*ssa.FreeVar]ssa.Value{}
			}
			b, ok := e.fvCell[x]
			if !ok {
				fn := x.Parent()
				idx := -1
				for j, fv := range fn.FreeVars {
					if fv == x {
						idx = j
					}
				}
				if outer := fn.Parent(); outer != nil && idx >= 0 {
					n := 0
					for _, blk := range outer.Blocks {
						for _, in := range blk.Instrs {
							if mc, ok := in.(*ssa.MakeClosure); ok && mc.Fn == fn && idx < len(mc.Bindings) {
								b = mc.Bindings[idx]
								n++
							}
						}
					}
					if n != 1 {
						b = nil // several closure values of the same literal: cannot tell which variable
					}
				}
				e.fvCell[x] = b
			}
			if b == nil {
				return nil
			}
			addr = b
		default:
			return nil
		}
	}
	return nil
}

// loadLiveness computes, for every load of a local cell in f, the blocks from which one of its uses is still reachable.
func (e *pathEngine) loadLiveness(f *ssa.Function) map[string]map[*ssa.BasicBlock]bool {
	if m, ok := e.loadUse[f]; ok {
		return m
	}
	if e.loadUse == nil {
		e.loadUse = map[*ssa.Function]map[string]map[*ssa.BasicBlock]bool{}
	}
	m := map[string]map[*ssa.BasicBlock]bool{}
	for _, b := range f.Blocks {
		for _, in := range b.Instrs {
			u, ok := in.(*ssa.UnOp)
			if !ok || u.Op != token.MUL || e.cellOf(u.X) == nil {
				continue
			}
			live := map[*ssa.BasicBlock]bool{}
			var up func(x *ssa.BasicBlock)
			up = func(x *ssa.BasicBlock) {
				if live[x] {
					return
				}
				live[x] = true
				if x == b {
					return // the definition: nothing above it holds this value
				}
				for _, p := range x.Preds {
					up(p)
				}
			}
			if refs := u.Referrers(); refs != nil {
				for _, r := range *refs {
					if r.Block() != nil {
						up(r.Block())
					}
				}
			}
			m[e.vkey(u)] = live
		}
	}
	e.loadUse[f] = m
	return m
}

// resolve follows phi/cell aliases of the state to the value key currently denoted.
func (e *pathEngine) resolve(st *PState, v ssa.Value) (string, ssa.Value) {
	// strip conversions that preserve nil-ness / truth
	for {
		switch x := v.(type) {
		case *ssa.ChangeInterface:
			v = x.X
			continue
		case *ssa.ChangeType:
			v = x.X
			continue
		}
		break
	}
	k := e.vkey(v)
	if _, has := st.alias[k]; !has {
		// a load of a local variable whose own record was dropped (dead) or never made: the variable's current content
		if u, ok := v.(*ssa.UnOp); ok && u.Op == token.MUL {
			if c := e.cellOf(u.X); c != nil {
				if a, ok := st.alias["cell:"+e.vkeyRaw(c)]; ok {
					k = a
				}
			}
		}
	}
	for i := 0; i < 8; i++ {
		if a, ok := st.alias[k]; ok {
			k = a
			continue
		}
		break
	}
	if fv, ok := e.vals[k]; ok {
		v = fv
	}
	return k, v
}

// aliasTarget is what a phi / local cell is recorded to stand for when it receives op.
func (e *pathEngine) aliasTarget(st *PState, op ssa.Value) string {
	if isNilConst(op) {
		return "const:nil"
	}
	if bv, ok := boolConst(op); ok {
		if bv {
			return "const:true"
		}
		return "const:false"
	}
	k, v := e.resolve(st, op)
	if strings.HasPrefix(k, "const:") {
		return k
	}
	if _, hasFact := st.facts[k]; hasFact {
		return k
	}
	// a value that can never be nil (error constructor, allocation): remember only that
	if !isBoolType(v.Type()) && e.known(st, v) == False {
		return "const:nonnil"
	}
	return k
}

// known returns what the state knows about v being nil (for nil-able values) / true (for booleans).
func (e *pathEngine) known(st *PState, v ssa.Value) Tri {
	k, v := e.resolve(st, v)
	if strings.HasPrefix(k, "const:") {
		switch k {
		case "const:nil", "const:true":
			return True
		case "const:false", "const:nonnil":
			return False
		}
	}
	if isNilConst(v) {
		return True
	}
	if b, ok := boolConst(v); ok {
		if b {
			return True
		}
		return False
	}
	// a value that IS one of the rule's atoms (a comparison stored in a variable or returned) is known through the atom
	if e.r.Atom != nil {
		if name, neg := e.r.Atom(v); name != "" {
			if t, ok := st.facts["@"+name]; ok && t != Unknown {
				if neg {
					return t.not()
				}
				return t
			}
		}
	}
	switch x := v.(type) {
	case *ssa.MakeInterface, *ssa.Alloc, *ssa.MakeClosure, *ssa.MakeMap, *ssa.MakeSlice, *ssa.MakeChan, *ssa.Function:
		return False // never nil
	case *ssa.Call:
		if e.alwaysNonNil(x.Common(), 0) {
			return False
		}
	case *ssa.UnOp:
		if x.Op == token.NOT {
			return e.known(st, x.X).not()
		}
	}
	if t, ok := st.facts[k]; ok {
		return t
	}
	return Unknown
}

// alwaysNonNil: the single result of the call is non-nil on every return of a statically known callee.
func (e *pathEngine) alwaysNonNil(c *ssa.CallCommon, depth int) bool {
	f := c.StaticCallee()
	if f == nil || depth > 3 || len(f.Blocks) == 0 || f.Signature.Results().Len() != 1 {
		return false
	}
	for _, b := range f.Blocks {
		ret, ok := b.Instrs[len(b.Instrs)-1].(*ssa.Return)
		if !ok {
			continue
		}
		switch x := ret.Results[0].(type) {
		case *ssa.MakeInterface, *ssa.Alloc:
		case *ssa.Call:
			if !e.alwaysNonNil(x.Common(), depth+1) {
				return false
			}
		default:
			return false
		}
	}
	return true
}

// tracked reports whether facts about the value with this key are worth keeping.
func (e *pathEngine) tracked(st *PState, k string, v ssa.Value) bool {
	if e.retFlow[v] {
		return true
	}
	// results of event calls
	base := k
	if i := strings.LastIndex(k, "#"); i >= 0 {
		base = k[:i]
	}
	for _, l := range st.last {
		if l == base {
			return true
		}
	}
	return false
}

// cond decomposes a branch condition into (fact key, value on the true edge). ok=false: not tracked.
func (e *pathEngine) cond(st *PState, c ssa.Value) (key string, onTrue Tri, ok bool) {
	if e.r.Atom != nil {
		if name, neg := e.r.Atom(c); name != "" {
			t := True
			if neg {
				t = False
			}
			return "@" + name, t, true
		}
	}
	switch x := c.(type) {
	case *ssa.UnOp:
		if x.Op == token.NOT {
			k, t, ok := e.cond(st, x.X)
			return k, t.not(), ok
		}
	case *ssa.BinOp:
		if x.Op == token.EQL || x.Op == token.NEQ {
			var other ssa.Value
			var constTrue Tri // fact value if (other == const) holds
			switch {
			case isNilConst(x.Y):
				other, constTrue = x.X, True
			case isNilConst(x.X):
				other, constTrue = x.Y, True
			default:
				if b, isb := boolConst(x.Y); isb {
					other = x.X
					constTrue = False
					if b {
						constTrue = True
					}
				} else if b, isb := boolConst(x.X); isb {
					other = x.Y
					constTrue = False
					if b {
						constTrue = True
					}
				}
			}
			if other != nil {
				// the compared value may itself be an atom (e.g. a field load compared with nil)
				if e.r.Atom != nil {
					if name, neg := e.r.Atom(other); name != "" {
						t := constTrue
						if neg {
							t = t.not()
						}
						if x.Op == token.NEQ {
							t = t.not()
						}
						return "@" + name, t, true
					}
				}
				k, v := e.resolve(st, other)
				if !e.tracked(st, k, v) && !strings.HasPrefix(k, "const:") {
					// a phi of tracked values is tracked through its alias (k already resolved)
					if _, isPhi := other.(*ssa.Phi); !isPhi {
						return "", Unknown, false
					}
				}
				t := constTrue
				if x.Op == token.NEQ {
					t = t.not()
				}
				return k, t, true
			}
		}
	}
	// a plain boolean value: call result, phi, parameter...
	if isBoolType(c.Type()) {
		k, v := e.resolve(st, c)
		// the value this condition currently stands for (through phis / variables) may be one of the rule's atoms
		if v != nil && v != c {
			if _, again := v.(*ssa.Phi); !again {
				if k2, t2, ok2 := e.cond(st, v); ok2 {
					return k2, t2, true
				}
			}
		}
		if strings.HasPrefix(k, "const:") || e.tracked(st, k, v) {
			return k, True, true
		}
		if _, isPhi := c.(*ssa.Phi); isPhi && k != e.vkey(c) {
			return k, True, true
		}
		// a boolean tested by more than one branch (a named condition reused in several cases) must be remembered,
		// otherwise the second test is explored against the first one's outcome
		if e.testedTwice(c) {
			return k, True, true
		}
	}
	return "", Unknown, false
}

// testedTwice: the boolean value is the condition (possibly negated) of at least two branch instructions.
func (e *pathEngine) testedTwice(v ssa.Value) bool {
	refs := v.Referrers()
	if refs == nil {
		return false
	}
	n := 0
	for _, r := range *refs {
		switch x := r.(type) {
		case *ssa.If:
			n++
		case *ssa.UnOp:
			if x.Op == token.NOT && x.Referrers() != nil {
				for _, r2 := range *x.Referrers() {
					if _, ok := r2.(*ssa.If); ok {
						n++
					}
				}
			}
		}
	}
	return n >= 2
}

func isBoolType(t types.Type) bool {
	b, ok := t.Underlying().(*types.Basic)
	return ok && b.Kind() == types.Bool
}

type workItem struct {
	b    *ssa.BasicBlock
	idx  int
	pred *ssa.BasicBlock
	st   *PState
}

// run analyses f from state st0 and returns the states at its returns.
func (e *pathEngine) run(f *ssa.Function, st0 *PState) []*PState {
	e.id(f)
	var exits []*PState
	visited := map[*ssa.BasicBlock]map[string]bool{}
	work := []workItem{{b: f.Blocks[0], st: st0}}
	capped := false
	for len(work) > 0 {
		it := work[len(work)-1]
		work = work[:len(work)-1]
		e.steps++
		if e.steps > maxSteps {
			if !capped {
				e.res.Undecided = append(e.res.Undecided, fmt.Sprintf("step budget exhausted in %s", fnName(f)))
				capped = true
			}
			break
		}
		st := it.st
		b := it.b
		if it.idx == 0 {
			// phi aliases for the edge pred -> b
			if it.pred != nil {
				pi := -1
				for i, pb := range b.Preds {
					if pb == it.pred {
						pi = i
						break
					}
				}
				// evaluate all phis against the incoming state (parallel assignment)
				type upd struct{ k, v string }
				var upds []upd
				for _, in := range b.Instrs {
					ph, ok := in.(*ssa.Phi)
					if !ok {
						break
					}
					if pi < 0 {
						continue
					}
					op := ph.Edges[pi]
					target := e.aliasTarget(st, op)
					upds = append(upds, upd{e.vkey(ph), target})
				}
				for _, u := range upds {
					if u.k != u.v {
						st.alias[u.k] = u.v
					}
				}
			}
			// records of loads none of whose uses can still be reached only multiply states: drop them
			if lv := e.loadLiveness(f); len(lv) > 0 {
				for lk, live := range lv {
					if _, has := st.alias[lk]; has && !live[b] {
						delete(st.alias, lk)
					}
				}
			}
			k := st.key()
			m := visited[b]
			if m == nil {
				m = map[string]bool{}
				visited[b] = m
			}
			if m[k] {
				continue
			}
			if len(m) >= maxStatesPerBlock {
				if !capped {
					e.res.Undecided = append(e.res.Undecided, fmt.Sprintf("state cap reached in %s block %d", fnName(f), b.Index))
					capped = true
				}
				continue
			}
			m[k] = true
			if len(m) > e.res.MaxStates {
				e.res.MaxStates = len(m)
			}
			e.res.Blocks++
			st.trace = append(st.trace, fmt.Sprintf("%d", b.Index))
			if len(st.trace) > 30 {
				st.trace = st.trace[len(st.trace)-30:]
			}
		}
		forked := false
		for i := it.idx; i < len(b.Instrs) && !forked; i++ {
			in := b.Instrs[i]
			switch x := in.(type) {
			case *ssa.Phi:
				continue
			case *ssa.If:
				e.target(in, st)
				e.branch(x, b, st, &work)
				forked = true
			case *ssa.Jump:
				work = append(work, workItem{b: b.Succs[0], pred: b, st: st})
				forked = true
			case *ssa.Return:
				// a boolean result computed without a branch (return a >= b) carries a condition of its own: the
				// two outcomes are separate paths, so that rules about "returns true/false" see which facts hold
				states := []*PState{st}
				if f == e.r.Fn {
					for _, res := range x.Results {
						if !isBoolType(res.Type()) {
							continue
						}
						var next []*PState
						for _, s0 := range states {
							if e.known(s0, res) != Unknown {
								next = append(next, s0)
								continue
							}
							k, onTrue, ok := e.cond(s0, res)
							if !ok || strings.HasPrefix(k, "const:") || s0.facts[k] != Unknown {
								next = append(next, s0)
								continue
							}
							a, b := s0.clone(), s0
							a.facts[k] = onTrue
							b.facts[k] = onTrue.not()
							next = append(next, a, b)
						}
						states = next
					}
				}
				for _, s0 := range states {
					e.target(in, s0)
					s0.ret = x
					exits = append(exits, s0)
				}
				forked = true
			case *ssa.Panic:
				e.target(in, st)
				forked = true
			case *ssa.RunDefers:
				outs := e.runDefers(st, x.Parent())
				for _, o := range outs {
					work = append(work, workItem{b: b, idx: i + 1, pred: nil, st: o})
				}
				forked = true
			default:
				// inlining of closures called / deferred in place
				if outs, inlined := e.maybeInline(in, st); inlined {
					for _, o := range outs {
						work = append(work, workItem{b: b, idx: i + 1, pred: nil, st: o})
					}
					forked = true
					break
				}
				e.step(in, st)
			}
		}
	}
	return exits
}

func (e *pathEngine) branch(x *ssa.If, b *ssa.BasicBlock, st *PState, work *[]workItem) {
	// `v == nil` / `v != nil` where v is the result of `v, ok := x.(I)` for an interface type I, tested in a block that
	// the ok-edge of a branch on that ok dominates: v is not nil there (a redundant defensive check), one edge only
	if bo, isB := x.Cond.(*ssa.BinOp); isB && (bo.Op == token.EQL || bo.Op == token.NEQ) {
		var other ssa.Value
		if isNilConst(bo.Y) {
			other = bo.X
		} else if isNilConst(bo.X) {
			other = bo.Y
		}
		if other != nil && assertedNonNil(other, b) {
			idx := 0
			if bo.Op == token.EQL {
				idx = 1
			}
			*work = append(*work, workItem{b: b.Succs[idx], pred: b, st: st})
			return
		}
	}
	k, onTrue, ok := e.cond(st, x.Cond)
	cur := Unknown
	if ok {
		if strings.HasPrefix(k, "const:") {
			switch k {
			case "const:true", "const:nil":
				cur = True
			default:
				cur = False
			}
		} else {
			cur = st.facts[k]
		}
	} else {
		// maybe the condition's truth is already derivable (constants through phis, negations)
		if t := e.known(st, x.Cond); t != Unknown && isBoolType(x.Cond.Type()) {
			if _, isCall := x.Cond.(*ssa.Call); !isCall {
				if t == True {
					*work = append(*work, workItem{b: b.Succs[0], pred: b, st: st})
				} else {
					*work = append(*work, workItem{b: b.Succs[1], pred: b, st: st})
				}
				return
			}
		}
	}
	// true edge
	if !ok {
		*work = append(*work, workItem{b: b.Succs[0], pred: b, st: st.clone()})
		*work = append(*work, workItem{b: b.Succs[1], pred: b, st: st})
		return
	}
	if cur == Unknown || cur == onTrue {
		s := st.clone()
		if !strings.HasPrefix(k, "const:") {
			s.facts[k] = onTrue
		}
		*work = append(*work, workItem{b: b.Succs[0], pred: b, st: s})
	}
	if cur == Unknown || cur == onTrue.not() {
		s := st
		if !strings.HasPrefix(k, "const:") {
			s.facts[k] = onTrue.not()
		}
		*work = append(*work, workItem{b: b.Succs[1], pred: b, st: s})
	}
}

// step applies a non-control instruction to the state.
func (e *pathEngine) step(in ssa.Instruction, st *PState) {
	e.target(in, st)
	if e.r.KillAtoms != nil {
		for _, a := range e.r.KillAtoms(in) {
			delete(st.facts, "@"+a)
		}
	}
	switch x := in.(type) {
	case *ssa.Alloc:
		// a fresh cell holds the zero value until something is stored into it
		if pt, ok := x.Type().Underlying().(*types.Pointer); ok {
			switch pt.Elem().Underlying().(type) {
			case *types.Pointer, *types.Interface, *types.Slice, *types.Map, *types.Signature, *types.Chan:
				st.alias["cell:"+e.vkeyRaw(x)] = "const:nil"
			case *types.Basic:
				if isBoolType(pt.Elem()) {
					st.alias["cell:"+e.vkeyRaw(x)] = "const:false"
				}
			}
		}
	case *ssa.Store:
		// local cells (named results spilled by defer, variables captured by closures — also written from inside them)
		if a := e.cellOf(x.Addr); a != nil {
			k := e.aliasTarget(st, x.Val)
			st.alias["cell:"+e.vkeyRaw(a)] = k
		}
	case *ssa.UnOp:
		if x.Op == token.MUL {
			if a := e.cellOf(x.X); a != nil {
				if k, ok := st.alias["cell:"+e.vkeyRaw(a)]; ok {
					st.alias[e.vkey(x)] = k
				} else {
					delete(st.alias, e.vkey(x))
				}
			}
		}
	case *ssa.Defer:
		if mc, ok := x.Call.Value.(*ssa.MakeClosure); ok {
			if f, ok := mc.Fn.(*ssa.Function); ok && len(f.Blocks) > 0 {
				id := fmt.Sprintf("%d|fn:%d", e.id(in.Parent()), e.id(f))
				e.dfns[id] = f
				st.defers = append(st.defers, id)
				if e.r.Event != nil {
					if name := e.r.Event(in); name != "" {
						st.defers = append(st.defers, fmt.Sprintf("%d|%s", e.id(in.Parent()), name))
					}
				}
				return
			}
		}
		if e.r.Event != nil {
			if name := e.r.Event(in); name != "" {
				st.defers = append(st.defers, fmt.Sprintf("%d|%s", e.id(in.Parent()), name))
			}
		}
		return
	case *ssa.Go:
		// a go statement is not an occurrence of its callee on this path; only rules that name the
		// go statement itself (extra event functions) see it
		if e.r.Event != nil {
			if name := e.r.Event(in); name != "" {
				e.fire(name, "", st)
			}
		}
		return
	}
	if e.r.Event != nil {
		if name := e.r.Event(in); name != "" {
			vk := ""
			if v, ok := in.(ssa.Value); ok {
				vk = e.vkeyRaw(v)
			}
			if cc := callCommon(in); cc != nil {
				if i := callErrIdx(cc); i >= 0 {
					e.evErr[name] = i
				}
			}
			e.fire(name, vk, st)
		}
	}
}

// runDefers fires the deferred events (last registered first); deferred closures are analysed in place.
func (e *pathEngine) runDefers(st *PState, fn *ssa.Function) []*PState {
	tag := fmt.Sprintf("%d|", e.id(fn))
	var ds, keep []string
	for _, d := range st.defers {
		if strings.HasPrefix(d, tag) {
			ds = append(ds, d)
		} else {
			keep = append(keep, d)
		}
	}
	st.defers = keep
	states := []*PState{st}
	for i := len(ds) - 1; i >= 0; i-- {
		d := ds[i]
		if f, ok := e.dfns[d]; ok {
			if e.depth >= 3 {
				continue
			}
			var next []*PState
			e.depth++
			for _, s := range states {
				next = append(next, e.run(f, s)...)
			}
			e.depth--
			states = next
			continue
		}
		name := d[strings.Index(d, "|")+1:]
		for _, s := range states {
			e.fire(name, "", s)
		}
	}
	return states
}

func (e *pathEngine) fire(name, vk string, st *PState) {
	if st.seen[name] < 2 {
		st.seen[name]++
	}
	if vk != "" {
		// facts about an earlier call of the same event at the same instruction (loop) are stale
		if old, ok := st.last[name]; ok {
			for k := range st.facts {
				if strings.HasPrefix(k, old+"#") {
					delete(st.facts, k)
				}
			}
		}
		st.last[name] = vk
	}
	for _, r := range e.r.Resets[name] {
		delete(st.seen, r)
		if old, ok := st.last[r]; ok {
			for k := range st.facts {
				if strings.HasPrefix(k, old+"#") {
					delete(st.facts, k)
				}
			}
			delete(st.last, r)
		}
		// a reset also removes a registered deferral of that event? no: defers stay registered
	}
}

func (e *pathEngine) target(in ssa.Instruction, st *PState) {
	if e.r.Target == nil {
		return
	}
	label := e.r.Target(in, st, e)
	if label == "" {
		return
	}
	// a site is a (instruction, label) pair: one return instruction that can report two outcomes is two sites
	if sk := (tgtKey{in, label}); !e.tgtSeen[sk] {
		e.tgtSeen[sk] = true
		e.res.Targets++
		e.res.Labels[label]++
	}
	e.res.States++
	if e.r.At == nil {
		return
	}
	if reason := e.r.At(label, in, st, e); reason != "" {
		k := fmt.Sprintf("%s@%d:%s", label, in.Pos(), reason)
		if !e.badSeen[k] {
			e.badSeen[k] = true
			pos := in.Pos()
			if !pos.IsValid() {
				// returns have no position when synthesised; use the block's first positioned instruction
				for _, bi := range in.Block().Instrs {
					if bi.Pos().IsValid() {
						pos = bi.Pos()
					}
				}
			}
			e.res.Bad = append(e.res.Bad, PathWitness{Label: label, Pos: pos, Reason: reason, Trace: "blocks " + strings.Join(st.trace, ">") + " facts{" + st.describe() + "}"})
		}
	}
}

// maybeInline handles calls of function literals (called or deferred in place) and rule-selected helpers.
func (e *pathEngine) maybeInline(in ssa.Instruction, st *PState) ([]*PState, bool) {
	if e.depth >= 3 {
		return nil, false
	}
	var callee *ssa.Function
	viaPredicate := false
	switch x := in.(type) {
	case *ssa.Call:
		c := x.Common()
		if mc, ok := c.Value.(*ssa.MakeClosure); ok {
			callee, _ = mc.Fn.(*ssa.Function)
		} else if f, ok := c.Value.(*ssa.Function); ok && !c.IsInvoke() {
			if f.Parent() != nil {
				callee = f
			} else if e.r.Inline != nil && e.r.Inline(origin(f)) && len(f.Blocks) > 0 {
				callee = f
			} else if pred := existentialPredicate(c); pred != nil {
				// slices.ContainsFunc(xs, func(x) bool {...}) is true iff the predicate's last call returned true:
				// the predicate is analysed once in place and its result stands for the call's result
				callee, viaPredicate = pred, true
			}
		}
	default:
		return nil, false
	}
	if callee == nil || len(callee.Blocks) == 0 {
		return nil, false
	}
	// the call itself may also be an event / target (e.g. an inlined helper that is a requirement)
	e.step(in, st)
	call := in.(*ssa.Call)
	// parameters stand for the arguments (closures: free variables are resolved through their bindings)
	if _, isClosure := call.Common().Value.(*ssa.MakeClosure); !isClosure && !viaPredicate {
		args := call.Common().Args
		for i, pa := range callee.Params {
			if i < len(args) {
				if t := e.aliasTarget(st, args[i]); t != e.vkey(pa) {
					st.alias[e.vkey(pa)] = t
				}
			}
		}
	}
	bind := !viaPredicate && callee.Parent() == nil
	if bind {
		e.p.pushBindings(callee, call.Common().Args)
	}
	e.depth++
	outs := e.run(callee, st)
	e.depth--
	if bind {
		e.p.popBindings(callee, call.Common().Args)
	}
	// the call's results stand for what the callee returned on this path
	raw := e.vkeyRaw(call)
	for _, o := range outs {
		ret := o.ret
		o.ret = nil
		if ret == nil {
			continue
		}
		for i, res := range ret.Results {
			k := fmt.Sprintf("%s#%d", raw, i)
			if t := e.aliasTarget(o, res); t != k {
				o.alias[k] = t
			}
		}
	}
	return outs, true
}

// existentialPredicate: for slices.ContainsFunc(xs, pred) with pred a function literal, the literal.
func existentialPredicate(c *ssa.CallCommon) *ssa.Function {
	sc := c.StaticCallee()
	if sc == nil || len(c.Args) != 2 {
		return nil
	}
	o := origin(sc)
	if o.Pkg == nil || o.Pkg.Pkg.Path() != "slices" || o.Name() != "ContainsFunc" {
		return nil
	}
	if mc, ok := c.Args[1].(*ssa.MakeClosure); ok {
		if f, ok := mc.Fn.(*ssa.Function); ok {
			return f
		}
	}
	return nil
}

// RetNil tells whether result #idx of a Return is nil in this state (True/False/Unknown).
func (e *pathEngine) RetNil(ret *ssa.Return, idx int, st *PState) Tri {
	if idx >= len(ret.Results) {
		return Unknown
	}
	return e.known(st, ret.Results[idx])
}

// errIdx returns the index of the (last) error-typed result of f, -1 if none.
func errIdx(f *ssa.Function) int {
	rs := f.Signature.Results()
	for i := rs.Len() - 1; i >= 0; i-- {
		if isErrorType(rs.At(i).Type()) {
			return i
		}
	}
	return -1
}

// callErrIdx returns the index of the error result of a call's signature.
func callErrIdx(c *ssa.CallCommon) int {
	rs := c.Signature().Results()
	for i := rs.Len() - 1; i >= 0; i-- {
		if isErrorType(rs.At(i).Type()) {
			return i
		}
	}
	return -1
}

// assertedNonNil: v is result #0 of a comma-ok type assertion to an interface type, and block b is dominated by the
// ok-successor of a branch on result #1 (an assertion to an interface type succeeds only for a non-nil dynamic value).
func assertedNonNil(v ssa.Value, b *ssa.BasicBlock) bool {
	ex, ok := v.(*ssa.Extract)
	if !ok || ex.Index != 0 {
		return false
	}
	ta, ok := ex.Tuple.(*ssa.TypeAssert)
	if !ok || !ta.CommaOk || !types.IsInterface(ta.AssertedType) {
		return false
	}
	for _, ref := range *ta.Referrers() {
		okEx, isEx := ref.(*ssa.Extract)
		if !isEx || okEx.Index != 1 {
			continue
		}
		for _, r2 := range *okEx.Referrers() {
			var cond ssa.Value = okEx
			okSucc := 0
			if u, isU := r2.(*ssa.UnOp); isU && u.Op == token.NOT {
				cond, okSucc = u, 1
				for _, r3 := range *u.Referrers() {
					if iff, isIf := r3.(*ssa.If); isIf && iff.Cond == cond {
						s := iff.Block().Succs[okSucc]
						if len(s.Preds) == 1 && s.Parent() == b.Parent() && s.Dominates(b) {
							return true
						}
					}
				}
				continue
			}
			if iff, isIf := r2.(*ssa.If); isIf && iff.Cond == cond {
				s := iff.Block().Succs[okSucc]
				if len(s.Preds) == 1 && s.Parent() == b.Parent() && s.Dominates(b) {
					return true
				}
			}
		}
	}
	return false
}
