package main

import (
	"fmt"
	"go/types"
	"sort"
	"strings"

	"golang.org/x/tools/go/ssa"
)

// WHO engine: who may call a function / who may write a field.

// allow is the table of permitted callers/writers: function -> one-line reason.
type allow map[*ssa.Function]string

// whoCalls records one obligation per call site of target in non-test canopy code: the enclosing
// named function of the caller must be in allowed. Returns the call sites.
func (c *ctx) whoCalls(rule string, target *ssa.Function, allowed allow) []callSite {
	if target == nil {
		return nil
	}
	sites := c.p.callSitesOf(target)
	var kept []callSite
	for _, s := range sites {
		if !inCanopy(s.Caller) || isTestFile(c.p, s.Site.Pos()) {
			continue
		}
		kept = append(kept, s)
		enc := enclosing(origin(s.Caller))
		construct := fmt.Sprintf("%s/callers-of/%s/%s", rule, fnName(target), fnName(enc))
		if reason, ok := allowed[enc]; ok {
			c.r.OK(construct, c.p.Pos(s.Site.Pos()), "permitted caller: "+reason)
		} else if via := c.p.newHelperOfAllowed(enc, allowed, 0); via != "" {
			c.r.OK(construct, c.p.Pos(s.Site.Pos()), "a helper that did not exist on the reference tree and is called only from permitted callers ("+via+")")
		} else {
			c.r.Bad(construct, c.p.Pos(s.Site.Pos()), fmt.Sprintf("%s is called from %s, which is not one of the permitted callers {%s}; shortest chain from a root: %s",
				fnName(target), fnName(s.Caller), allowedNames(allowed), c.p.chainToRoot(s.Caller)))
		}
	}
	c.r.Analysed["who_call_sites"] += len(kept)
	return kept
}

func allowedNames(a allow) string {
	var ns []string
	for f := range a {
		ns = append(ns, fnName(f))
	}
	sort.Strings(ns)
	return strings.Join(ns, ", ")
}

// chainToRoot gives a short caller chain (BFS over in-edges) for diagnostics.
func (p *Prog) chainToRoot(f *ssa.Function) string {
	type item struct {
		f    *ssa.Function
		prev *item
	}
	seen := map[*ssa.Function]bool{f: true}
	q := []*item{{f: f}}
	var lastIt *item
	for len(q) > 0 && len(seen) < 4000 {
		it := q[0]
		q = q[1:]
		lastIt = it
		n := p.CG.Nodes[it.f]
		if n == nil || len(n.In) == 0 {
			break
		}
		for _, e := range n.In {
			cf := e.Caller.Func
			if cf == nil || seen[cf] || !inCanopy(cf) {
				continue
			}
			seen[cf] = true
			q = append(q, &item{cf, it})
		}
	}
	var parts []string
	for it := lastIt; it != nil && len(parts) < 8; it = it.prev {
		parts = append(parts, fnName(it.f))
	}
	return strings.Join(parts, " -> ")
}

// fieldWrites returns every store into the field (FieldAddr+Store) in canopy non-test code,
// including composite literals that set it (which SSA also lowers to FieldAddr+Store).
type fieldWrite struct {
	Fn    *ssa.Function
	Instr *ssa.Store
	Base  ssa.Value
}

func (p *Prog) fieldWrites(fv *types.Var) []fieldWrite {
	var out []fieldWrite
	for _, f := range p.Funcs {
		for _, b := range f.Blocks {
			for _, in := range b.Instrs {
				if v, base, _ := storeField(in); v != nil && v == fv {
					out = append(out, fieldWrite{f, in.(*ssa.Store), base})
				}
			}
		}
	}
	return out
}

// whoWrites: every store to the field outside tests must be in an allowed function. skipFresh
// ignores stores into a struct freshly allocated in the same function (construction, not mutation).
func (c *ctx) whoWrites(rule string, fv *types.Var, name string, allowed allow, skipFresh bool) []fieldWrite {
	if fv == nil {
		return nil
	}
	var kept []fieldWrite
	for _, w := range c.p.fieldWrites(fv) {
		if isTestFile(c.p, w.Instr.Pos()) && w.Instr.Pos().IsValid() {
			continue
		}
		if skipFresh && isFreshAlloc(w.Base) {
			continue
		}
		// storing a field's own current value back into it (part of a whole-struct re-assignment that keeps the field)
		if ap := strings.TrimLeft(c.p.path(w.Instr.Addr), "&"); ap != "" && ap == c.p.path(w.Instr.Val) {
			continue
		}
		kept = append(kept, w)
		enc := enclosing(origin(w.Fn))
		construct := fmt.Sprintf("%s/writers-of/%s/%s", rule, name, fnName(enc))
		pos := w.Instr.Pos()
		if !pos.IsValid() {
			pos = w.Fn.Pos()
		}
		if reason, ok := allowed[enc]; ok {
			c.r.OK(construct, c.p.Pos(pos), "permitted writer: "+reason)
		} else if via := c.p.newHelperOfAllowed(enc, allowed, 0); via != "" {
			c.r.OK(construct, c.p.Pos(pos), "a helper that did not exist on the reference tree and is called only from permitted writers ("+via+")")
		} else {
			c.r.Bad(construct, c.p.Pos(pos), fmt.Sprintf("field %s is written in %s, not one of the permitted writers {%s}", name, fnName(w.Fn), allowedNames(allowed)))
		}
	}
	c.r.Analysed["who_field_writes"] += len(kept)
	return kept
}

// isFreshAlloc: the base pointer is an allocation made in this function (composite literal / new).
func isFreshAlloc(v ssa.Value) bool {
	switch x := v.(type) {
	case *ssa.Alloc:
		return true
	case *ssa.FieldAddr:
		return isFreshAlloc(x.X)
	case *ssa.IndexAddr:
		return isFreshAlloc(x.X)
	}
	return false
}

// constArg returns the constant boolean passed at argument position i of a call (ok=false if not constant).
func constBoolArg(cs ssa.CallInstruction, i int) (bool, bool) {
	args := cs.Common().Args
	if cs.Common().IsInvoke() {
		// receiver is not in Args
	} else if cs.Common().Signature().Recv() != nil {
		i++ // receiver is Args[0]
	}
	if i >= len(args) {
		return false, false
	}
	return boolConst(args[i])
}
