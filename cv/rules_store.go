package main

import (
	"fmt"
	"go/token"
	"go/types"
	"regexp"
	"sort"
	"strings"

	"golang.org/x/tools/go/ssa"
)

func init() {
	register("C09", c09)
	register("C10", c10)
	register("C16", c16)
}

// pebbleWrite reports whether a call durably writes to pebble: methods of *pebble.DB that mutate
// the database, and (*pebble.Batch).Commit.
func pebbleWrite(cc *ssa.CallCommon) string {
	sc := cc.StaticCallee()
	if sc == nil || sc.Signature.Recv() == nil || sc.Pkg == nil || !strings.HasPrefix(sc.Pkg.Pkg.Path(), "github.com/cockroachdb/pebble") {
		return ""
	}
	rt := types.TypeString(sc.Signature.Recv().Type(), func(p *types.Package) string { return p.Name() })
	switch rt {
	case "*pebble.DB":
		switch sc.Name() {
		case "Apply", "Set", "Delete", "DeleteRange", "DeleteSized", "SingleDelete", "Merge", "LogData", "RangeKeySet", "RangeKeyUnset", "RangeKeyDelete", "Ingest", "IngestAndExcise", "IngestExternalFiles", "IngestWithStats":
			return "DB." + sc.Name()
		}
	case "*pebble.Batch":
		if sc.Name() == "Commit" {
			return "Batch.Commit"
		}
	}
	return ""
}

// C09 — Crash-consistent, all-or-nothing block commit.
func c09(c *ctx) {
	r := c.r
	r.Explain = "Static decision of the single-atomic-write structure: (R1) the only durable pebble writes in canopy are the one db.Apply in Store.Commit and the offline Store.Rollback; (R2) every logical store (state, history, commitment tree, indexer, commit id) writes into the one batch Store.writer; " +
		"(R3) path rule inside Commit: Apply only after Root, setCommitID and Flush succeeded, the version advances only on Apply's ok-edge, nothing can fail after Apply; Flush commits all three transactional stores; (R4) certificate and block indexes are written into the same store before its Commit; (R5) re-open reads the key Commit wrote."
	r.NotCovered = []string{"atomicity and recovery of a pebble batch written with NoSync / WALMinSyncInterval (a crash may lose the last whole batches; trusted)", "file-system behaviour", "that re-opened components agree at runtime (value-level)"}
	r.Trusted = []string{"pebble applies a Batch atomically and recovers to a batch boundary"}

	storeCommit := c.fn("store.(*Store).Commit")
	rollback := c.fn("store.(*Store).Rollback")
	vsCommit := c.fn("store.(*VersionedStore).Commit")
	newVS := c.fn("store.NewVersionedStore")
	root := c.fn("store.(*Store).Root")
	setCommitID := c.fn("store.(*Store).setCommitID")
	flush := c.fn("store.(*Store).Flush")
	storeReset := c.fn("store.(*Store).Reset")
	if storeCommit == nil || rollback == nil || vsCommit == nil || newVS == nil || root == nil || setCommitID == nil || flush == nil || storeReset == nil {
		return
	}

	// ------------------------------------------------------------------ R1
	r.Rule("R1", "WHO", "durable writes to pebble (DB.Apply/Set/Delete/…, Batch.Commit) occur only in Store.Commit (exactly one Apply) and Store.Rollback (offline); VersionedStore.Commit, which would commit the shared batch early, is never called", 3)
	applyInCommit := 0
	for _, f := range c.p.Funcs {
		if isTestFile(c.p, f.Pos()) {
			continue
		}
		instrs(f, func(in ssa.Instruction) {
			cc := callCommon(in)
			if cc == nil {
				return
			}
			w := pebbleWrite(cc)
			if w == "" {
				return
			}
			enc := enclosing(origin(f))
			construct := "R1/durable-write/" + w + "/" + fnName(enc)
			switch {
			case enc == storeCommit && w == "DB.Apply":
				applyInCommit++
				r.OK(construct, c.p.Pos(in.Pos()), "the block's single atomic write")
			case enc == rollback && w == "DB.Apply":
				r.OK(construct, c.p.Pos(in.Pos()), "offline maintenance (node stopped), one batch")
			case enc == vsCommit && w == "Batch.Commit":
				r.OK(construct, c.p.Pos(in.Pos()), "helper that must have no caller (checked below)")
			default:
				r.Bad(construct, c.p.Pos(in.Pos()), fmt.Sprintf("%s performs a durable pebble write (%s) outside Store.Commit's single Apply: a crash between two writes leaves components at different heights", fnName(f), w))
			}
		})
	}
	r.Check(applyInCommit == 1, "R1/Commit/one-apply", c.p.Pos(storeCommit.Pos()), "exactly one db.Apply in Store.Commit", fmt.Sprintf("Store.Commit contains %d durable writes, expected exactly one", applyInCommit))
	c.whoCalls("R1", vsCommit, allow{})
	r.OK("R1/VersionedStore.Commit/no-caller-scan", c.p.Pos(vsCommit.Pos()), "call graph scanned for callers of VersionedStore.Commit (any caller is reported above)")

	// ------------------------------------------------------------------ R2
	r.Rule("R2", "FLOW", "one batch: wherever a Store is (re)built, the batch stored in Store.writer is the batch given to every writable VersionedStore; every other writable VersionedStore in package store is built over s.writer", 6)
	writerF := c.field("store", "Store", "writer")
	if writerF != nil {
		for _, spec := range []string{"store.NewStoreWithDB", "store.(*Store).Reset", "store.(*Store).Copy"} {
			f := c.fn(spec)
			if f == nil {
				continue
			}
			var w ssa.Value
			for _, st := range storesTo(f, writerF) {
				w = st.Val
			}
			if w == nil {
				r.Bad("R2/"+fnName(f)+"/writer", c.p.Pos(f.Pos()), "the function builds a Store but does not set Store.writer")
				continue
			}
			for _, cs := range callsIn(f, true, newVS) {
				b := argOf(cs, 1)
				if isNilConst(b) {
					continue
				}
				r.Check(stripLift(b) == stripLift(w), "R2/"+fnName(f)+"/versioned-store-batch", c.p.Pos(cs.Pos()), "writes into the Store's own batch", "a VersionedStore is built over batch "+c.p.path(b)+", which is not the batch stored in Store.writer ("+c.p.path(w)+"): its writes would not be part of the block's atomic write")
			}
			// the same through a new helper shared by several builders: the batch is rendered in the builder's context
			for _, dc := range c.p.callsInDeep(f, newVS) {
				if len(dc.Chain) == 0 {
					continue
				}
				pb := c.p.pathIn(dc.Chain, argOf(dc.CS, 1))
				if pb == "nil" {
					continue
				}
				r.Check(pb == c.p.path(w), "R2/"+fnName(f)+"/versioned-store-batch", c.p.Pos(dc.Chain[0].Pos()), "writes into the Store's own batch (through "+calleeName(dc.Chain[0].Common())+")", "a VersionedStore is built over batch "+pb+", which is not the batch stored in Store.writer ("+c.p.path(w)+"): its writes would not be part of the block's atomic write")
			}
		}
		// everywhere else in the package: writable versioned stores use s.writer (Rollback builds its own offline batch)
		for _, f := range c.p.Funcs {
			if pkgShort(f) != "store" || isTestFile(c.p, f.Pos()) {
				continue
			}
			switch fnName(enclosing(f)) {
			case "store.NewStoreWithDB", "(*store.Store).Reset", "(*store.Store).Copy", "(*store.Store).Rollback":
				continue
			}
			for _, cs := range callsIn(f, false, newVS) {
				b := argOf(cs, 1)
				if isNilConst(b) {
					continue
				}
				p := c.p.path(b)
				if isParamPath(p) && c.p.isNewNamed(f) {
					continue // a new shared constructor helper: judged at each of its call sites, in the caller's context
				}
				r.Check(p == "$0.writer", "R2/"+fnName(f)+"/versioned-store-batch", c.p.Pos(cs.Pos()), "built over s.writer", fnName(f)+" builds a writable VersionedStore over "+p+" instead of the Store's shared batch s.writer")
			}
		}
		for _, f := range c.p.Funcs {
			if pkgShort(f) != "store" || isTestFile(c.p, f.Pos()) || c.p.isNewNamed(f) {
				continue
			}
			switch fnName(enclosing(f)) {
			case "store.NewStoreWithDB", "(*store.Store).Reset", "(*store.Store).Copy", "(*store.Store).Rollback":
				continue
			}
			for _, dc := range c.p.callsInDeep(f, newVS) {
				if len(dc.Chain) == 0 {
					continue
				}
				pb := c.p.pathIn(dc.Chain, argOf(dc.CS, 1))
				if pb == "nil" {
					continue
				}
				r.Check(pb == "$0.writer", "R2/"+fnName(f)+"/versioned-store-batch", c.p.Pos(dc.Chain[0].Pos()), "built over s.writer (through "+calleeName(dc.Chain[0].Common())+")", fnName(f)+" builds a writable VersionedStore over "+pb+" instead of the Store's shared batch s.writer")
			}
		}
		// nested transactions share the parent's batch; the commitment tree writes through the state store's writer
		if newTxnM := c.fn("store.(*Store).NewTxn"); newTxnM != nil {
			okw := false
			for _, st := range storesTo(newTxnM, writerF) {
				if c.p.path(st.Val) == "$0.writer" {
					okw = true
				}
			}
			r.Check(okw, "R2/Store.NewTxn/shares-writer", c.p.Pos(newTxnM.Pos()), "nested store shares the parent's batch", "Store.NewTxn no longer shares the parent's batch (writer: s.writer)")
		}
		newTxn := c.fn("store.NewTxn")
		if newTxn != nil {
			for _, cs := range callsIn(root, false, newTxn) {
				rd, wr := c.p.path(argOf(cs, 0)), c.p.path(argOf(cs, 1))
				r.Check(rd == "$0.ss.reader" && wr == "$0.ss.writer", "R2/Store.Root/tree-writer", c.p.Pos(cs.Pos()), "commitment tree reads/writes through the state store's reader/writer", "the commitment tree in Root() is wired to ("+rd+", "+wr+") instead of (s.ss.reader, s.ss.writer)")
			}
		}
	}

	// ------------------------------------------------------------------ R3
	r.Rule("R3", "MPT", "inside Commit: db.Apply only after Root, setCommitID and Flush returned ok; s.version advances only on Apply's ok-edge; no error return after a successful Apply; Flush commits the tree, the state store and the indexer", 5)
	versionF := c.field("store", "Store", "version")
	if versionF != nil {
		c.mpt(mptSpec{
			rule: "R3", fn: storeCommit,
			events: evSet{"Root": {root}, "setCommitID": {setCommitID}, "Flush": {flush}},
			extraEv: firstOf(func(in ssa.Instruction) string {
				if cc := callCommon(in); cc != nil && pebbleWrite(cc) == "DB.Apply" {
					return "Apply"
				}
				return ""
			}, storeFieldEvent("version=", versionF)),
			target: func(in ssa.Instruction, st *PState, e *pathEngine) string {
				if cc := callCommon(in); cc != nil && pebbleWrite(cc) == "DB.Apply" {
					return "Apply"
				}
				if f, _, _ := storeField(in); f == versionF && in.Parent() == e.r.Fn {
					return "version-advance"
				}
				if ret, ok := in.(*ssa.Return); ok && in.Parent() == e.r.Fn {
					if e.RetNil(ret, 1, st) == True {
						return "ok-return"
					}
					return "error-return"
				}
				return ""
			},
			reqs: func(l string) []string {
				switch l {
				case "Apply":
					return []string{"Root.ok", "setCommitID.ok", "Flush.ok"}
				case "version-advance":
					return []string{"Apply#0=T"}
				case "ok-return":
					return []string{"Apply#0=T", "seen:version="}
				default:
					return []string{"!seen:Apply|Apply#0=F"}
				}
			},
			minTarget: 4,
		})
		// the value stored is s.version+1
		for _, st := range storesTo(storeCommit, versionF) {
			p := c.p.path(st.Val)
			r.Check(p == "($0.version + 1)", "R3/Commit/version-value", c.p.Pos(st.Pos()), "version advances by one", "Store.Commit sets the version to "+p+", expected s.version+1")
		}
	}
	// Flush covers the three transactional stores
	var flushed []string
	instrs(flush, func(in ssa.Instruction) {
		if cc := callCommon(in); cc != nil {
			name := ""
			if cc.IsInvoke() {
				name = cc.Method.Name()
			} else if sc := cc.StaticCallee(); sc != nil {
				name = sc.Name()
			}
			if name == "Commit" {
				var recv ssa.Value
				if cc.IsInvoke() {
					recv = cc.Value
				} else if len(cc.Args) > 0 {
					recv = cc.Args[0]
				}
				rp := c.p.path(recv)
				flushed = append(flushed, rp)
				if !strings.HasPrefix(rp, "$0") {
					// the receiver is an element of a local list (for _, txn := range pending { txn.Commit() }):
					// everything the function puts into a list with append / a literal is committed
					instrs(flush, func(in2 ssa.Instruction) {
						call, ok := in2.(*ssa.Call)
						if !ok {
							return
						}
						if bi, ok := call.Common().Value.(*ssa.Builtin); ok && bi.Name() == "append" && len(call.Common().Args) == 2 {
							for _, el := range sliceLitElems(call.Common().Args[1]) {
								flushed = append(flushed, c.p.path(el))
							}
						}
					})
				}
			}
		}
	})
	for _, want := range []struct{ what, pfx string }{{"commitment tree (sc)", "$0.sc.store"}, {"state store (ss)", "$0.ss"}, {"indexer", "$0.Indexer.db"}} {
		ok := false
		for _, f := range flushed {
			if f == want.pfx || strings.HasPrefix(f, want.pfx+".(") {
				ok = true
			}
		}
		r.Check(ok, "R3/Flush/"+want.what, c.p.Pos(flush.Pos()), "Flush commits the "+want.what+" into the batch", "Store.Flush no longer commits the "+want.what+" ("+want.pfx+") into the batch: that component would lag one block behind after a commit")
	}

	// ------------------------------------------------------------------ R4
	r.Rule("R4", "MPT", "CommitCertificate: IndexQC and IndexBlock succeed on the same store before its Commit", 1)
	indexQC := c.fn("store.(*Store).IndexQC")
	indexBlock := c.fn("store.(*Store).IndexBlock")
	for _, spec := range []string{"controller.(*Controller).CommitCertificate", "controller.(*Controller).commitToStore"} {
		f := c.fnQuiet(spec)
		if f == nil || indexQC == nil || indexBlock == nil {
			continue
		}
		if len(callsIn(f, false, indexQC)) == 0 {
			continue // commitToStore: the parallel variant indexes in its caller
		}
		c.mpt(mptSpec{rule: "R4", fn: f, events: evSet{"IndexQC": {indexQC}, "IndexBlock": {indexBlock}}, target: tgtCall("Commit", storeCommit),
			reqs: func(string) []string { return []string{"IndexQC.ok", "IndexBlock.ok"} }, minTarget: 1})
		var recvs []string
		for _, cs := range callsIn(f, false, indexQC, indexBlock, storeCommit) {
			recvs = append(recvs, c.p.path(recvOf(cs)))
		}
		same := len(recvs) >= 3
		for _, x := range recvs {
			if x != recvs[0] {
				same = false
			}
		}
		r.Check(same, "R4/"+fnName(f)+"/same-store", c.p.Pos(f.Pos()), "indexes and commit act on the same store value "+strings.Join(recvs[:1], ""), "IndexQC / IndexBlock / Commit in "+fnName(f)+" act on different store values: "+strings.Join(recvs, " ; "))
	}

	// ------------------------------------------------------------------ R5
	r.Rule("R5", "AGREE", "re-open reads what Commit wrote: the latest commit id is written and read under lastCommitIDPrefix at the latest-state version; the per-height commit id under commitIDKey(version)", 3)
	getLatest := c.fn("store.getLatestCommitID")
	vsSetAt := c.fn("store.(*VersionedStore).SetAt")
	txnGet := c.fn("store.(*Txn).Get")
	if getLatest != nil && vsSetAt != nil && txnGet != nil {
		wroteLatest, wroteHeight := false, false
		for _, cs := range callsIn(setCommitID, false, vsSetAt) {
			k, ver := c.p.path(argOf(cs, 0)), c.p.path(argOf(cs, 2))
			if k == "store.lastCommitIDPrefix" && ver == "18446744073709551615" {
				wroteLatest = true
			}
			// the per-height record: key commitIDKey(v) written at that same v, v being setCommitID's version parameter
			// (wherever it stands in the parameter list, and whether commitIDKey is a method or a function)
			if isParamPath(ver) && strings.Contains(k, "commitIDKey(") && (strings.Contains(k, "("+ver+")") || strings.Contains(k, ","+ver+")")) {
				wroteHeight = true
			}
		}
		r.Check(wroteLatest, "R5/setCommitID/latest", c.p.Pos(setCommitID.Pos()), "writes lastCommitIDPrefix at lssVersion into the batch", "setCommitID no longer writes the latest commit id (lastCommitIDPrefix @ lssVersion) into the block's batch")
		if !wroteHeight {
			// the key function may have been folded or rewritten: what matters is that the per-height record is written
			// under the key getCommitID reads, as a function of the version (writer/reader agreement)
			if getCID := c.fnQuiet("store.(*Store).getCommitID"); getCID != nil {
				tmpName := regexp.MustCompile(`@t[0-9]+|loopvar:t[0-9]+`)
				norm := func(k, ver string) string {
					return tmpName.ReplaceAllString(strings.ReplaceAll(k, ver, "$V"), "@t")
				}
				var readKeys []string
				for _, cs := range callsIn(getCID, false, txnGet) {
					for i, pa := range getCID.Params {
						if i > 0 {
							readKeys = append(readKeys, norm(c.p.path(argOf(cs, 0)), c.p.path(pa)))
						}
					}
				}
				for _, cs := range callsIn(setCommitID, false, vsSetAt) {
					k, ver := c.p.path(argOf(cs, 0)), c.p.path(argOf(cs, 2))
					if !isParamPath(ver) {
						continue
					}
					for _, rk := range readKeys {
						if strings.Contains(rk, "$V") && norm(k, ver) == rk {
							wroteHeight = true
						}
					}
				}
			}
		}
		r.Check(wroteHeight, "R5/setCommitID/per-height", c.p.Pos(setCommitID.Pos()), "writes commitIDKey(version) at version", "setCommitID no longer writes commitIDKey(version) at that version")
		readLatest := false
		for _, cs := range callsIn(getLatest, false, txnGet) {
			if c.p.path(argOf(cs, 0)) == "store.lastCommitIDPrefix" {
				readLatest = true
			}
		}
		verOK := false
		for _, cs := range callsIn(getLatest, false, newVS) {
			if c.p.path(argOf(cs, 2)) == "18446744073709551615" {
				verOK = true
			}
		}
		r.Check(readLatest && verOK, "R5/getLatestCommitID", c.p.Pos(getLatest.Pos()), "reads lastCommitIDPrefix at lssVersion", "getLatestCommitID no longer reads lastCommitIDPrefix at lssVersion: the node would re-open at another height than it committed")
	}
}

// C10 — immutability of committed history (the structural clause).
func c10(c *ctx) {
	r := c.r
	r.Explain = "Static decision of the immutability clause only: (R1) every versioned write in package store targets the store's write version (version+1), the latest-state sentinel, or is part of the offline Rollback; raw batch deletes occur only in tombstone purge and Rollback; " +
		"(R2) read-only views are built without any writer; (R3) historical queries go through TimeMachine → NewReadOnly with the requested height."
	r.NotCovered = []string{"iterator completeness/order/dedup across the four strategies", "nested-transaction merge semantics", "tombstone visibility", "compaction and block-property filters", "rollback arithmetic — all value-level"}
	r.Trusted = []string{"pebble snapshots are immutable"}

	newVS := c.fn("store.NewVersionedStore")
	newTxn := c.fn("store.NewTxn")
	newRO := c.fn("store.(*Store).NewReadOnly")
	timeMachine := c.fn("fsm.(*StateMachine).TimeMachine")
	if newVS == nil || newTxn == nil || newRO == nil || timeMachine == nil {
		return
	}
	// ------------------------------------------------------------------ R1
	r.Rule("R1", "FLOW", "versioned writes never target an already committed version: Txn.flush/write use the Txn's writeVersion (set to version+1 at construction); explicit SetAt/DeleteAt use lssVersion, the commit's own version or Rollback's offline batch; raw pebble Batch.Delete only in purgeLssTombstones, pruneVersionWindow, Rollback", 6)
	// (a) construction: the trailing version argument of NewTxn for writable txns is s.version+1
	nW := 0
	for _, f := range c.p.Funcs {
		if pkgShort(f) != "store" || isTestFile(c.p, f.Pos()) {
			continue
		}
		for _, cs := range callsIn(f, false, newTxn) {
			wr := argOf(cs, 1)
			if isNilConst(wr) {
				continue
			}
			nW++
			// variadic version: last argument is a slice literal
			args := cs.Common().Args
			elems := sliceLitElems(args[len(args)-1])
			if len(elems) != 1 {
				r.Bad("R1/NewTxn-version/"+fnName(f), c.p.Pos(cs.Pos()), "a writable Txn is created without an explicit write version")
				continue
			}
			p := c.p.path(elems[0])
			ok := p == "($0.version + 1)" || p == "($1.Height + 1)" || strings.HasSuffix(p, ".Height + 1)")
			r.Check(ok, "R1/NewTxn-version/"+fnName(f), c.p.Pos(cs.Pos()), "write version = "+p, "a writable Txn in "+fnName(f)+" is created with write version "+p+", expected the store's version+1: flushing it would overwrite a committed version")
		}
	}
	r.Analysed["writable_txn_constructions"] = nW
	// (b) explicit versioned writes
	vsSetAt, vsDelAt := c.fn("store.(*VersionedStore).SetAt"), c.fn("store.(*VersionedStore).DeleteAt")
	txnWrite := c.fn("store.(*Txn).write")
	if vsSetAt != nil && vsDelAt != nil && txnWrite != nil {
		// which parameter of Txn.write is the version: the one it hands to SetAt/DeleteAt (wherever it stands in the list)
		wvIdx, okPass, nPass := -1, true, 0
		instrs(txnWrite, func(in ssa.Instruction) {
			if cc := callCommon(in); cc != nil && cc.IsInvoke() && (cc.Method.Name() == "SetAt" || cc.Method.Name() == "DeleteAt") {
				nPass++
				pa, isParam := cc.Args[len(cc.Args)-1].(*ssa.Parameter)
				if !isParam || pa.Parent() != txnWrite || (wvIdx >= 0 && paramIndex(pa) != wvIdx) {
					okPass = false
					return
				}
				wvIdx = paramIndex(pa)
			}
		})
		wvPath := fmt.Sprintf("$%d", wvIdx)
		for _, f := range c.p.Funcs {
			if pkgShort(f) != "store" || isTestFile(c.p, f.Pos()) {
				continue
			}
			enc := fnName(enclosing(f))
			for _, cs := range callsIn(f, false, vsSetAt, vsDelAt) {
				vi := 2
				if callIs(cs.Common(), vsDelAt) {
					vi = 1
				}
				p := c.p.path(argOf(cs, vi))
				ok := false
				why := ""
				switch {
				case p == "18446744073709551615":
					ok, why = true, "latest-state sentinel"
				case enc == "(*store.Store).setCommitID" && isParamPath(p) && p != "$0":
					ok, why = true, "the commit's own (next) version (setCommitID's version parameter)"
				case enc == "(*store.VersionedStore).Set" || enc == "(*store.VersionedStore).Delete":
					ok, why = p == "$0.version", "the versioned store's configured version"
				case enc == "(*store.Store).Rollback":
					ok, why = true, "offline rollback"
				case enc == "(*store.Txn).write" && wvIdx >= 0 && p == wvPath:
					ok, why = true, "the writeVersion parameter (its provenance is checked by the pass-through obligations)"
				}
				r.Check(ok, "R1/versioned-write/"+enc, c.p.Pos(cs.Pos()), "writes at "+p+" ("+why+")", enc+" writes at version "+p+", which is neither the latest-state sentinel, the commit's next version nor part of the offline rollback")
			}
		}
		// Txn.write passes its version parameter through to the TxnWriterI
		r.Check(okPass && nPass >= 2 && wvIdx >= 0, "R1/Txn.write/version-pass-through", c.p.Pos(txnWrite.Pos()), "SetAt/DeleteAt receive the writeVersion parameter", "Txn.write no longer forwards its writeVersion parameter to SetAt/DeleteAt")
		// every write of a Txn goes out at the Txn's own writeVersion / the versions flushTo() names — whether Commit calls
		// write directly or through a helper (flush) that passes its version parameter on
		txnCommit := c.fn("store.(*Txn).Commit")
		if txnCommit != nil {
			var versionOK func(f *ssa.Function, v ssa.Value, depth int) (bool, string)
			versionOK = func(f *ssa.Function, v ssa.Value, depth int) (bool, string) {
				p := c.p.path(stripLift(v))
				if p == "$0.writeVersion" || p == "next($0.flushTo())#1" {
					return true, p
				}
				if pa, isParam := stripLift(v).(*ssa.Parameter); isParam && depth < 3 {
					idx := paramIndex(pa)
					sites := c.p.callSitesOf(f)
					if len(sites) == 0 {
						return false, p + " (parameter of a function nobody calls)"
					}
					for _, site := range sites {
						if isTestFile(c.p, site.Site.Pos()) {
							continue
						}
						args := site.Site.Common().Args
						if idx >= len(args) {
							return false, p
						}
						if ok, why := versionOK(enclosing(site.Caller), args[idx], depth+1); !ok {
							return false, why
						}
					}
					return true, p + " (forwarded parameter)"
				}
				return false, p
			}
			nW := 0
			for _, site := range c.p.callSitesOf(txnWrite) {
				if isTestFile(c.p, site.Site.Pos()) || pkgShort(site.Caller) != "store" {
					continue
				}
				nW++
				ok, why := versionOK(enclosing(site.Caller), argOf(site.Site, wvIdx-1), 0)
				r.Check(ok, "R1/Txn.Commit/flush-version", c.p.Pos(site.Site.Pos()), "writes at "+why, fnName(enclosing(site.Caller))+" writes a Txn's operations at version "+why+" instead of the Txn's writeVersion / the versions named by flushTo()")
			}
			r.Check(nW >= 1, "R1/Txn.write/callers", c.p.Pos(txnWrite.Pos()), "Txn.write is called", "Txn.write has no caller any more (rule needs re-reading)")
			if flushTo := c.fn("store.(*Txn).flushTo"); flushTo != nil {
				instrs(flushTo, func(in ssa.Instruction) {
					if mu, ok := in.(*ssa.MapUpdate); ok {
						p := c.p.path(mu.Key)
						r.Check(p == "$0.writeVersion" || p == "18446744073709551615", "R1/Txn.flushTo/version", c.p.Pos(in.Pos()), "flush target version "+p, "Txn.flushTo names version "+p+" as a flush target; only the Txn's writeVersion and the latest-state sentinel are permitted")
					}
				})
			}
		}
	}
	// (c) raw deletes on a pebble batch
	for _, f := range c.p.Funcs {
		if !inCanopy(f) || isTestFile(c.p, f.Pos()) {
			continue
		}
		instrs(f, func(in ssa.Instruction) {
			cc := callCommon(in)
			if cc == nil {
				return
			}
			sc := cc.StaticCallee()
			if sc == nil || sc.Pkg == nil || !strings.HasPrefix(sc.Pkg.Pkg.Path(), "github.com/cockroachdb/pebble") || sc.Signature.Recv() == nil {
				return
			}
			if !strings.HasSuffix(sc.Signature.Recv().Type().String(), "pebble/v2.Batch") {
				return
			}
			switch sc.Name() {
			case "Delete", "DeleteRange", "SingleDelete", "DeleteSized":
				enc := fnName(enclosing(f))
				ok := enc == "(*store.Store).purgeLssTombstones" || enc == "(*store.Store).pruneVersionWindow" || enc == "(*store.Store).Rollback" || enc == "(*store.VersionedStore).DeleteAt"
				r.Check(ok, "R1/raw-batch-delete/"+enc, c.p.Pos(in.Pos()), "raw delete in a maintenance function", enc+" physically deletes keys from the batch: committed history could be erased outside tombstone purge / rollback")
			}
		})
	}

	// ------------------------------------------------------------------ R2
	r.Rule("R2", "FLOW", "read-only views cannot write: every NewVersionedStore and NewTxn in NewReadOnly has a nil writer/batch", 5)
	for _, cs := range callsIn(newRO, false, newVS) {
		r.Check(isNilConst(argOf(cs, 1)), "R2/NewReadOnly/versioned-store", c.p.Pos(cs.Pos()), "nil batch", "NewReadOnly builds a VersionedStore with a batch: a historical view could write")
		p := c.p.path(argOf(cs, 2))
		r.Check(p == "$1" || p == "18446744073709551615", "R2/NewReadOnly/version", c.p.Pos(cs.Pos()), "reads at "+p, "NewReadOnly builds a reader at version "+p+", expected the requested queryVersion (or the latest-state sentinel when it equals the current version)")
	}
	const latestSentinel = "18446744073709551615"
	for _, dc := range c.p.callsInDeep(newRO, newVS) {
		if len(dc.Chain) == 0 {
			continue // direct calls: above
		}
		pos := c.p.Pos(dc.Chain[0].Pos())
		r.Check(c.p.pathIn(dc.Chain, argOf(dc.CS, 1)) == "nil", "R2/NewReadOnly/versioned-store", pos, "nil batch", "NewReadOnly builds a VersionedStore with a batch: a historical view could write")
		p := c.p.pathIn(dc.Chain, argOf(dc.CS, 2))
		r.Check(p == "$1" || p == latestSentinel, "R2/NewReadOnly/version", pos, "reads at "+p, "NewReadOnly builds a reader at version "+p+", expected the requested queryVersion (or the latest-state sentinel when it equals the current version)")
	}
	for _, cs := range callsIn(newRO, false, newTxn) {
		r.Check(isNilConst(argOf(cs, 1)), "R2/NewReadOnly/txn", c.p.Pos(cs.Pos()), "nil writer", "NewReadOnly builds a Txn with a writer: a historical view could write")
	}
	// the latest-state shortcut is taken only when the query version equals the current version
	c.mpt(mptSpec{
		rule: "R2", fn: newRO, events: evSet{},
		atom: cmpAtoms(c.p, cmpSpec{"query==current", token.EQL, pathIs("$0.version"), pathIs("$1")}),
		target: func(in ssa.Instruction, st *PState, e *pathEngine) string {
			if cc := callCommon(in); cc != nil && callIs(cc, newVS) && c.p.path(argOf(in.(ssa.CallInstruction), 2)) == "18446744073709551615" {
				return "latest-state-reader"
			}
			// the same reader built through a new shared constructor helper: the version is rendered in NewReadOnly's context
			if call, ok := in.(*ssa.Call); ok && in.Parent() == newRO {
				if sc := call.Common().StaticCallee(); sc != nil && !call.Common().IsInvoke() && c.p.isNewNamed(sc) {
					for _, dc := range c.p.callsInDeep(origin(sc), newVS) {
						chain := append([]ssa.CallInstruction{call}, dc.Chain...)
						if c.p.pathIn(chain, argOf(dc.CS, 2)) == "18446744073709551615" {
							return "latest-state-reader"
						}
					}
				}
			}
			return ""
		},
		reqs:      func(string) []string { return []string{"@query==current=T"} },
		minTarget: 1,
	})

	// ------------------------------------------------------------------ R3
	r.Rule("R3", "FLOW", "history is read at the asked height: TimeMachine hands its (clamped) height to NewReadOnly; the historical loaders go through TimeMachine", 5)
	newROm := c.p.IfaceMethod("lib", "StoreI", "NewReadOnly")
	nTM := 0
	instrs(timeMachine, func(in ssa.Instruction) {
		if cc := callCommon(in); cc != nil && cc.IsInvoke() && cc.Method == newROm {
			nTM++
			p := c.p.path(cc.Args[0])
			r.Check(requestedHeight(p), "R3/TimeMachine/height", c.p.Pos(in.Pos()), "NewReadOnly("+p+")", "TimeMachine opens the read-only view at "+p+", which does not derive from the requested height")
		}
	})
	r.Check(nTM >= 1, "R3/TimeMachine/uses-NewReadOnly", c.p.Pos(timeMachine.Pos()), "TimeMachine builds a read-only view", "TimeMachine no longer builds its view with NewReadOnly")
	for _, spec := range []string{"fsm.(*StateMachine).LoadCommittee", "fsm.(*StateMachine).LoadCommitteeData", "fsm.(*StateMachine).LoadRootChainInfo", "fsm.(*StateMachine).LoadMinimumEvidenceHeight"} {
		f := c.fnQuiet(spec)
		if f == nil {
			continue
		}
		if errIdx(f) >= 0 {
			c.mpt(mptSpec{rule: "R3", fn: f, events: evSet{"TimeMachine": {timeMachine}},
				target: tgtOkReturn("ok-return"),
				reqs:   func(string) []string { return []string{"TimeMachine.ok"} }, minTarget: 1})
		}
		cs := callsIn(f, true, timeMachine)
		if len(cs) == 0 {
			// may delegate to a helper that does
			r.Unk("R3/"+fnName(f)+"/TimeMachine", c.p.Pos(f.Pos()), "historical loader does not call TimeMachine directly; cannot decide at which height it reads")
			continue
		}
		for _, x := range cs {
			p := c.p.path(argOf(x, 0))
			ok := false
			for i := range f.Params {
				if strings.Contains(p, fmt.Sprintf("$%d", i)) && i > 0 {
					ok = true
				}
			}
			if len(f.Params) == 1 && p == "$0.Height()" {
				ok = true // loader without a height parameter: reads at the current height through a clean view
			}
			r.Check(ok, "R3/"+fnName(f)+"/height", c.p.Pos(x.Pos()), "TimeMachine("+p+")", fnName(f)+" opens the historical view at "+p+", which does not derive from its height parameter")
		}
	}
	c10filters(c)
	c10cursor(c)
	r.Rule("R6", "ALIAS", "a read-only view shares no mutable component with the live store: every field of the Store built by NewReadOnly is constructed there from the snapshot readers; only log, db, metrics, config and the version number come from the receiver", 8)
	c.ruleReadOnlyIsolated("R6")
	c.ruleRollbackPrunesAllPrefixes("R7")
	c.ruleTxnCopyIndependent("R8")
}

// ruleTxnCopyIndependent (C10.R8): Store.Copy gives the mempool its own store over the same pending writes. The copy is
// independent only if the in-memory write set is: txn.copy must build its own ops map AND its own sorted key index (a
// shared index lists keys the other side has no operation for — read as deletes — and is cleared by the other side's
// Discard), valueOp.copy must clone key and value, and Txn.Copy must take its write set from txn.copy.
func (c *ctx) ruleTxnCopyIndependent(R string) {
	r := c.r
	r.Rule(R, "ALIAS", "store copies share no pending-write structure: no reference-typed field of the transaction txn.copy returns is the receiver's own field (each is made or cloned there), valueOp.copy clones key and value, and Txn.Copy's write set is txn.copy()", 5)
	cp := c.fn("store.(*txn).copy")
	if cp == nil {
		return
	}
	selfField := regexp.MustCompile(`^\*?&?\$0(\.[A-Za-z_][A-Za-z0-9_]*)+$`)
	check := func(f *ssa.Function, onlyRef bool) int {
		n := 0
		for _, g := range bodyFuncs(f, true) {
			instrs(g, func(in ssa.Instruction) {
				st, ok := in.(*ssa.Store)
				if !ok {
					return
				}
				fa, ok := st.Addr.(*ssa.FieldAddr)
				if !ok || !isFreshAlloc(fa.X) {
					return
				}
				stt := derefStruct(fa.X.Type())
				if stt == nil || fa.Field >= stt.NumFields() {
					return
				}
				fld := stt.Field(fa.Field)
				if !isRefType(fld.Type()) {
					return
				}
				n++
				p := c.p.path(st.Val)
				shared := false
				for _, a := range expandPhi(p) {
					if selfField.MatchString(a) {
						shared = true
					}
				}
				r.Check(!shared, fmt.Sprintf("%s/%s/%s", R, fnName(f), fld.Name()), c.p.Pos(st.Pos()), fld.Name()+" = "+short(p), fmt.Sprintf("%s puts the receiver's own %s (%s) into the copy: original and copy then share it, so a key written (or a Discard made) through one side changes what the other side iterates", fnName(f), fld.Name(), p))
			})
		}
		return n
	}
	n := check(cp, true)
	if vcp := c.fnQuiet("store.(valueOp).copy"); vcp != nil {
		n += check(vcp, true)
	}
	r.Analysed["copy_reference_fields"] = n
	if tc := c.fn("store.(*Txn).Copy"); tc != nil {
		txnF := c.field("store", "Txn", "txn")
		found := false
		for _, g := range bodyFuncs(tc, true) {
			instrs(g, func(in ssa.Instruction) {
				if fv, _, val := storeField(in); fv != nil && fv == txnF {
					found = true
					p := c.p.path(val)
					r.Check(has(p, "$0.txn.copy()"), R+"/Txn.Copy/write-set", c.p.Pos(in.Pos()), "txn = t.txn.copy()", "Txn.Copy gives the copy the write set "+p+" instead of t.txn.copy(): both stores would share pending writes")
				}
			})
		}
		r.Check(found, R+"/Txn.Copy/sets-txn", c.p.Pos(tc.Pos()), "Txn.Copy sets the write set", "Txn.Copy no longer sets the copy's write set")
	}
}

// ruleReadOnlyIsolated (C10.R6 / C16.R3): the Store returned by NewReadOnly must not alias the live store's state store,
// commitment tree, indexer, writer or locks. A view that borrows s.sc serves roots and proofs of the block being built.
func (c *ctx) ruleReadOnlyIsolated(R string) {
	r := c.r
	newRO := c.fn("store.(*Store).NewReadOnly")
	storeT := c.p.Named("store", "Store")
	if newRO == nil || !r.Anchor(storeT != nil, "store.Store") {
		return
	}
	shared := map[string]string{"log": "logger", "db": "the database handle (reads go through fresh snapshots)", "metrics": "metrics sink", "config": "immutable configuration", "version": "a number, compared only"}
	re := regexp.MustCompile(`\$0\.([A-Za-z_][A-Za-z0-9_]*)(\(?)`)
	n := 0
	instrs(newRO, func(in ssa.Instruction) {
		fv, base, val := storeField(in)
		if fv == nil || !isFreshAlloc(base) {
			return
		}
		nt := namedOf(base.Type())
		if nt == nil || nt.Obj().Pkg() != storeT.Obj().Pkg() {
			return
		}
		fname := fv.Name()
		if nt.Obj() != storeT.Obj() {
			fname = nt.Obj().Name() + "." + fname // a component built in place (the Indexer)
		}
		n++
		pth := c.p.path(val)
		var borrowed []string
		for _, m := range re.FindAllStringSubmatch(pth, -1) {
			if m[2] == "(" {
				continue // a method call on the live store, not one of its components (helpers it builds the view with are looked through)
			}
			if _, ok := shared[m[1]]; !ok {
				borrowed = append(borrowed, m[1])
			}
		}
		r.Check(len(borrowed) == 0, R+"/NewReadOnly/field/"+fname, c.p.Pos(in.Pos()), "built from "+pth,
			fmt.Sprintf("the read-only view's %s is built from the live store's %s (%s): the view would observe, or share mutable state with, the block under construction instead of the committed version", fname, strings.Join(borrowed, ", "), pth))
	})
	r.Check(n >= 6, R+"/NewReadOnly/fields", c.p.Pos(newRO.Pos()), fmt.Sprintf("%d fields of the view examined", n), fmt.Sprintf("only %d field initialisations of the read-only Store found in NewReadOnly (rule needs re-reading)", n))
}

// pebbleIterOp classifies a call on *pebble.Iterator: "Move" (positions the cursor on another entry), "Key" (examines the
// entry under the cursor), "" otherwise.
func pebbleIterOp(cc *ssa.CallCommon) string {
	sc := cc.StaticCallee()
	if sc == nil || sc.Signature.Recv() == nil || sc.Pkg == nil || !strings.HasPrefix(sc.Pkg.Pkg.Path(), "github.com/cockroachdb/pebble") {
		return ""
	}
	if !strings.HasSuffix(sc.Signature.Recv().Type().String(), ".Iterator") {
		return ""
	}
	switch sc.Name() {
	case "SeekGE", "SeekLT", "SeekGEWithLimit", "SeekLTWithLimit", "SeekPrefixGE", "First", "Last", "Next", "Prev", "NextPrefix", "NextWithLimit", "PrevWithLimit":
		return "Move"
	case "Key":
		return "Key"
	}
	return ""
}

// c10cursor (C10.R5): the versioned iterator never steps over an entry it did not look at. Every movement of the raw
// pebble cursor inside advanceToNextKey/first (helpers step and rewindToLatestVersion inlined) happens either first, after
// a movement that reported "no entry" (false), or after the entry the previous movement landed on was examined with Key().
// A seek that lands on the newest visible version followed by an unconditional step silently drops that version.
func c10cursor(c *ctx) {
	r := c.r
	r.Rule("R5", "PAIR", "cursor discipline of the versioned iterator: between two successful movements of the raw pebble cursor (Seek*/Next/Prev, helpers inlined) the entry landed on is examined with Key(); an entry is never stepped over unseen", 2)
	adv := c.fn("store.(*VersionedIterator).advanceToNextKey")
	first := c.fn("store.(*VersionedIterator).first")
	step := c.fnQuiet("store.(*VersionedIterator).step")
	rewind := c.fnQuiet("store.(*VersionedIterator).rewindToLatestVersion")
	if adv == nil || first == nil {
		return
	}
	// helpers: a store function that (transitively, through static calls) moves the cursor is analysed in place; one that
	// only examines the entry counts as an examination
	moves, looks := map[*ssa.Function]bool{}, map[*ssa.Function]bool{}
	for changed := true; changed; {
		changed = false
		for _, g := range c.p.Funcs {
			if pkgShort(g) != "store" {
				continue
			}
			instrs(g, func(in ssa.Instruction) {
				cc := callCommon(in)
				if cc == nil {
					return
				}
				op := pebbleIterOp(cc)
				sc := cc.StaticCallee()
				if (op == "Move" || (sc != nil && moves[origin(sc)])) && !moves[g] {
					moves[g], changed = true, true
				}
				if (op == "Key" || (sc != nil && looks[origin(sc)])) && !looks[g] {
					looks[g], changed = true, true
				}
			})
		}
	}
	_, _ = step, rewind
	ev := func(in ssa.Instruction) string {
		if cc := callCommon(in); cc != nil {
			if op := pebbleIterOp(cc); op != "" {
				return op
			}
			if sc := cc.StaticCallee(); sc != nil && looks[origin(sc)] && !moves[origin(sc)] {
				return "Key"
			}
		}
		return ""
	}
	for _, f := range []*ssa.Function{adv, first} {
		c.mpt(mptSpec{
			rule: "R5", fn: f, events: evSet{}, extraEv: ev,
			resets: map[string][]string{"Move": {"Key"}},
			inline: func(g *ssa.Function) bool { return moves[g] && pkgShort(g) == "store" },
			target: func(in ssa.Instruction, st *PState, e *pathEngine) string {
				if cc := callCommon(in); cc != nil && pebbleIterOp(cc) == "Move" {
					return "cursor-move"
				}
				return ""
			},
			reqs:      func(string) []string { return []string{"!seen:Move|seen:Key|Move#0=F"} },
			minTarget: 2,
		})
	}
}

// c10filters (C10.R4): a reader at version v must not filter out blocks that contain version v.
func c10filters(c *ctx) {
	r := c.r
	r.Rule("R4", "FLOW", "block-property filters admit the versions their caller reads: with the helper inlined, the exclusive upper bound handed to sstable.NewBlockIntervalFilter is (version+1) with lower bound 0 on the read path (newVersionedIterator), and (maxVersion+1) with lower bound minVersion on the rollback prune path", 2)
	helper := c.fn("store.newTargetWindowFilter")
	if helper == nil {
		return
	}
	var lowP, highP string
	n := 0
	instrs(helper, func(in ssa.Instruction) {
		if cc := callCommon(in); cc != nil && strings.HasSuffix(calleeName(cc), "sstable.NewBlockIntervalFilter") && len(cc.Args) >= 3 {
			n++
			lowP, highP = c.p.path(cc.Args[1]), c.p.path(cc.Args[2])
		}
	})
	if n != 1 {
		r.Unk("R4/helper", c.p.Pos(helper.Pos()), fmt.Sprintf("expected one NewBlockIntervalFilter call in newTargetWindowFilter, found %d", n))
		return
	}
	subst := func(p string, args []string) string {
		for i := len(args) - 1; i >= 0; i-- {
			p = strings.ReplaceAll(p, fmt.Sprintf("$%d", i), "\x00"+fmt.Sprint(i)+"\x00")
		}
		for i, a := range args {
			p = strings.ReplaceAll(p, "\x00"+fmt.Sprint(i)+"\x00", a)
		}
		return p
	}
	want := map[string][2]string{
		"(*store.VersionedStore).newVersionedIterator": {"0", "($0.version + 1)"},
		"(*store.Store).pruneVersionWindow":            {"$4", "($5 + 1)"},
	}
	seen := 0
	for _, s := range c.p.callSitesOf(helper) {
		if !inCanopy(s.Caller) || isTestFile(c.p, s.Site.Pos()) {
			continue
		}
		seen++
		var args []string
		for _, a := range s.Site.Common().Args {
			args = append(args, c.p.path(a))
		}
		lo, hi := subst(lowP, args), subst(highP, args)
		enc := fnName(enclosing(s.Caller))
		w, ok := want[enc]
		if !ok {
			r.Bad("R4/filter/"+enc, c.p.Pos(s.Site.Pos()), "a new block-property filter site ["+lo+", "+hi+") in "+enc+": decide which versions its caller reads and add it to the rule")
			continue
		}
		r.Check(lo == w[0] && hi == w[1], "R4/filter/"+enc, c.p.Pos(s.Site.Pos()), "effective window ["+lo+", "+hi+")", enc+" filters sstable blocks with the window ["+lo+", "+hi+"), expected ["+w[0]+", "+w[1]+"): blocks whose lowest version is the reader's own version would be skipped and a committed height would read differently after a flush/compaction")
	}
	r.Check(seen >= 2, "R4/filter/sites", c.p.Pos(helper.Pos()), fmt.Sprintf("%d filter sites", seen), "fewer block-property filter sites than known (2)")
	// the collector maps a key at version v to [v, v+1)
	if mp := c.fnQuiet("store.(versionedCollector).MapPointKey"); mp != nil {
		ok := false
		instrs(mp, func(in ssa.Instruction) {
			if fv, _, val := storeField(in); fv != nil && fv.Name() == "Upper" {
				if p := c.p.path(val); strings.HasSuffix(p, " + 1)") && strings.Contains(p, "parseVersion(") {
					ok = true
				}
			}
		})
		r.Check(ok, "R4/collector/interval", c.p.Pos(mp.Pos()), "key at version v is recorded as [v, v+1)", "the block-property collector no longer records a key at version v as the interval [v, v+1): filters and collector would disagree")
	}
}

// C16 — Merkle proofs (two necessary conditions).
func c16(c *ctx) {
	r := c.r
	r.Explain = "Structural necessary conditions of proof completeness/soundness: (R1) the commitment tree is read (NewReadOnly, used for historical proofs) from the same key prefix it is written under (Root()); (R2) VerifyProof can return true only after the recomputed root equalled the given root and the proof has at least two nodes; (R3) the read-only view that serves historical proofs builds its own tree and shares nothing mutable with the live store."
	r.NotCovered = []string{"soundness of VerifyProof's re-traversal for an honest proof of key A presented for key B (value-level; observed defect F4, not claimed)", "panic-freedom on malformed proofs", "hash collision resistance", "that GetMerkleProof produces a verifying proof (dynamic)"}
	r.Trusted = []string{"crypto.Hash"}
	root := c.fn("store.(*Store).Root")
	newRO := c.fn("store.(*Store).NewReadOnly")
	newTxn := c.fn("store.NewTxn")
	newSMT := c.fn("store.NewDefaultSMT")
	verify := c.fn("store.(*SMT).VerifyProof")
	if root == nil || newRO == nil || newTxn == nil || newSMT == nil || verify == nil {
		return
	}
	r.Rule("R1", "AGREE", "the prefix of the Txn backing the sparse Merkle tree is the same on the write path (Store.Root) and the read path (Store.NewReadOnly)", 1)
	prefixOf := func(f *ssa.Function) []string {
		var out []string
		for _, cs := range callsIn(f, false, newSMT) {
			if inner, ok := stripAssert(argOf(cs, 0)).(*ssa.Call); ok && callIs(inner.Common(), newTxn) {
				out = append(out, c.p.path(argOf(inner, 2)))
			} else {
				out = append(out, "?"+c.p.path(argOf(cs, 0)))
			}
		}
		return out
	}
	w, rd := prefixOf(root), prefixOf(newRO)
	if len(w) != 1 || len(rd) != 1 {
		r.Unk("R1/tree-prefix", c.p.Pos(newRO.Pos()), fmt.Sprintf("expected one NewDefaultSMT(NewTxn(..prefix..)) in Root and in NewReadOnly, found %d and %d", len(w), len(rd)))
	} else {
		r.Check(w[0] == rd[0] && !strings.HasPrefix(w[0], "?"), "R1/tree-prefix", c.p.Pos(newRO.Pos()), "written and read under "+w[0], "the commitment tree is written under "+w[0]+" (Store.Root) but read under "+rd[0]+" (Store.NewReadOnly): historical views see an empty tree and no proof verifies")
	}
	// GetProof / VerifyProof of the Store delegate to that tree
	for _, spec := range []string{"store.(*Store).GetProof", "store.(*Store).VerifyProof"} {
		if f := c.fn(spec); f != nil {
			ok := false
			instrs(f, func(in ssa.Instruction) {
				if cc := callCommon(in); cc != nil && len(cc.Args) > 0 && c.p.path(cc.Args[0]) == "$0.sc" {
					ok = true
				}
			})
			r.Check(ok, "R1/"+fnName(f)+"/delegates", c.p.Pos(f.Pos()), "delegates to the store's commitment tree s.sc", fnName(f)+" no longer delegates to s.sc")
		}
	}
	r.Rule("R2", "MPT", "VerifyProof returns true only after bytes.Equal(recomputed root, given root) and len(proof) >= 2", 1)
	bytesEqual := lookupStd(c.p, "bytes", "Equal")
	if bytesEqual != nil {
		c.mpt(mptSpec{
			rule: "R2", fn: verify, events: evSet{},
			extraEv: func(in ssa.Instruction) string {
				if cc := callCommon(in); cc != nil && callIs(cc, bytesEqual) && (c.p.path(cc.Args[0]) == "$4" || c.p.path(cc.Args[1]) == "$4") {
					return "rootEqual"
				}
				return ""
			},
			atom:      cmpAtoms(c.p, cmpSpec{"len<2", token.LSS, pathIs("len($5)"), pathIs("2")}),
			target:    tgtReturnVal("true-return", 0, true),
			reqs:      func(string) []string { return []string{"rootEqual#0=T", "@len<2=F"} },
			minTarget: 1,
		})
	}
	r.Rule("R3", "ALIAS", "proofs for a committed height come from that height's tree: the read-only view builds its own commitment tree from the snapshot at the query version and borrows no mutable component of the live store (whose tree holds the block under construction)", 8)
	c.ruleReadOnlyIsolated("R3")

	// ------------------------------------------------------------------ R4
	// completeness: an absent key's proof starts at the node the traversal stops at, and for keys hashing beyond the
	// smallest / largest stored key that node IS the minimum / maximum sentinel. The reserved-key guard therefore belongs to
	// the key being asked about (the target), never to the traversal's current node.
	r.Rule("R4", "FLOW", "every key has a proof: SMT.validateTarget (the reserved-key guard) is applied only to an operation's own target node — never to the node a traversal ended on, which for an absent key at the edge of the key space is legitimately a sentinel", 3)
	if vt := c.fn("store.(*SMT).validateTarget"); vt != nil {
		n := 0
		for _, f := range c.p.Funcs {
			if !inCanopyRaw(f) || pkgShort(f) != "store" || isTestFile(c.p, f.Pos()) {
				continue
			}
			instrs(f, func(in ssa.Instruction) {
				cc := callCommon(in)
				if cc == nil || !callIs(cc, vt) || len(cc.Args) < 2 {
					return
				}
				n++
				p := c.p.path(cc.Args[1])
				okArg := allAlts(p, func(a string) bool {
					return !strings.Contains(a, ".current") && (strings.Contains(a, ".target") || strings.Contains(a, "valueOpToSMTNode(") || strings.Contains(a, "new(node)") || isParamPath(a))
				})
				r.Check(okArg, "R4/validateTarget/"+fnName(enclosing(f)), c.p.Pos(in.Pos()), "guard applied to "+short(p), fnName(enclosing(f))+" applies the reserved-key guard to "+p+", not to the target of the operation: keys whose traversal legitimately ends on the minimum / maximum sentinel (absent keys at the edge of the key space) can no longer be proven absent")
			})
		}
		r.Analysed["reserved_key_guard_sites"] = n
	}
}

// ruleRollbackPrunesAllPrefixes (C08.R6 / C09.R6 / C10.R7): Rollback must remove the abandoned versions of EVERYTHING the
// live store writes under a version: the set of key prefixes handed to pruneVersionWindow covers every prefix a writable
// Txn is opened on (the latest-state prefix excepted: it holds one un-versioned copy and is patched key by key). A prefix
// left out keeps its newer versions: the commitment tree under it then resolves to the abandoned tip and every later root
// depends on history, not on state.
func (c *ctx) ruleRollbackPrunesAllPrefixes(R string) {
	r := c.r
	r.Rule(R, "AGREE", "rollback prunes what commit writes: every key prefix on which the store opens a writable versioned Txn (latest-state excepted, patched separately) is handed to pruneVersionWindow by Store.Rollback", 3)
	rollback := c.fn("store.(*Store).Rollback")
	prune := c.fn("store.(*Store).pruneVersionWindow")
	newTxn := c.fn("store.NewTxn")
	if rollback == nil || prune == nil || newTxn == nil {
		return
	}
	written := map[string]string{}
	for _, f := range c.p.Funcs {
		if pkgShort(f) != "store" || isTestFile(c.p, f.Pos()) {
			continue
		}
		for _, cs := range callsIn(f, false, newTxn) {
			if isNilConst(argOf(cs, 1)) {
				continue // read-only
			}
			if pth := c.p.path(argOf(cs, 2)); strings.HasPrefix(pth, "store.") {
				if _, seen := written[pth]; !seen {
					written[pth] = c.p.Pos(cs.Pos())
				}
			}
		}
	}
	pruned := map[string]bool{}
	for _, cs := range callsIn(rollback, false, prune) {
		arg := argOf(cs, 2)
		if u, ok := arg.(*ssa.UnOp); ok {
			if ia, ok := u.X.(*ssa.IndexAddr); ok {
				for _, e := range sliceLitElems(ia.X) {
					pruned[c.p.path(e)] = true
				}
				continue
			}
		}
		pruned[c.p.path(arg)] = true
	}
	var ws []string
	for w := range written {
		ws = append(ws, w)
	}
	sort.Strings(ws)
	for _, w := range ws {
		if w == "store.latestStatePrefix" {
			uses := false
			instrs(rollback, func(in ssa.Instruction) {
				for _, op := range in.Operands(nil) {
					if g, ok := (*op).(*ssa.Global); ok && g.Name() == "latestStatePrefix" {
						uses = true
					}
				}
			})
			r.Check(uses, R+"/Rollback/patches/"+w, c.p.Pos(rollback.Pos()), "latest state is patched from the target view", "Rollback no longer touches the latest-state prefix: the current state would keep the abandoned heights' values")
			continue
		}
		r.Check(pruned[w], R+"/Rollback/prunes/"+w, written[w], "written by the live store and pruned by Rollback",
			"the live store writes versioned data under "+w+" ("+written[w]+") but Store.Rollback does not hand that prefix to pruneVersionWindow: versions written by the abandoned heights survive the rollback (for the commitment tree: the root after a rollback depends on the abandoned history)")
	}
	r.Check(len(ws) >= 3, R+"/Rollback/written-prefixes", c.p.Pos(rollback.Pos()), fmt.Sprintf("%d written prefixes found: %s", len(ws), strings.Join(ws, ", ")), fmt.Sprintf("only %d written prefixes found (rule needs re-reading)", len(ws)))
}

// isParamPath: the rendered path is a bare parameter ($k).
func isParamPath(p string) bool {
	if len(p) < 2 || p[0] != '$' {
		return false
	}
	for _, ch := range p[1:] {
		if ch < '0' || ch > '9' {
			return false
		}
	}
	return true
}

// requestedHeight: the path derives from TimeMachine's height parameter; the only other value it
// may take is the machine's own height (the clamp of 0 and of heights beyond the tip).
func requestedHeight(p string) bool {
	return strings.Contains(p, "$1") && allAlts(p, func(a string) bool { return strings.Contains(a, "$1") || strings.Contains(a, "$0.height") })
}
