package main

import (
	"fmt"
	"go/token"
	"go/types"
	"strings"

	"golang.org/x/tools/go/ssa"
)

func init() { register("C01", c01) }

// C01 — BFT agreement (structural necessary conditions only).
func c01(c *ctx) {
	r := c.r
	r.Explain = "Agreement itself is a statement about interleavings of >= 4 replicas and is NOT decided. Decided are the disciplines HotStuff safety is derived from, each of which, if broken, breaks agreement for some schedule: (R1) who may write the lock (BFT.HighQC) and under which established conditions; (R2) every vote / self-commit is sent only after the phase's validation succeeded (SAFE-NODE unless unlocked, ValidateProposal, proposer/proposal check, lock before precommit vote); " +
		"(R3) +2/3 comparisons guard every certificate and every read of MinimumMaj23 is accounted for; (R4) one vote per validator; (R5) locks survive a committee-preserving root-chain reset; (R6) an attached HighQC is never accepted unverified and only a non-partial, validated leader message becomes a proposal."
	r.NotCovered = []string{"agreement over schedules, Byzantine behaviours and round changes (model-checking territory)", "the numeric threshold floor(2T/3)+1", "timer and pacemaker behaviour", "election (VRF) uniqueness"}
	r.Trusted = []string{"BLS aggregate verification", "C02's certificate checks (QuorumCertificate.Check, AggregateSignature.Check)"}

	highQCF := c.field("bft", "BFT", "HighQC")
	startPrecommitVote := c.fn("bft.(*BFT).StartPrecommitVotePhase")
	startProposeVote := c.fn("bft.(*BFT).StartProposeVotePhase")
	startElectionVote := c.fn("bft.(*BFT).StartElectionVotePhase")
	startCommitProcess := c.fn("bft.(*BFT).StartCommitProcessPhase")
	handleHigh := c.fn("bft.(*BFT).handleHighQCVDFAndEvidence")
	newHeight := c.fn("bft.(*BFT).NewHeight")
	checkPP := c.fn("bft.(*BFT).CheckProposerAndProposal")
	safeNode := c.fn("bft.(*BFT).SafeNode")
	getProposal := c.fn("bft.(*BFT).GetProposal")
	checkHighQC := c.fn("lib.(*QuorumCertificate).CheckHighQC")
	qcCheck := c.fn("lib.(*QuorumCertificate).Check")
	qcCheckBasic := c.fn("lib.(*QuorumCertificate).CheckBasic")
	viewCheck := c.fn("lib.(*View).Check")
	viewLess := c.fn("lib.(*View).Less")
	checkProposerMsg := c.fn("bft.(*BFT).CheckProposerMessage")
	handleMessage := c.fn("bft.(*BFT).HandleMessage")
	addProposal := c.fn("bft.(*BFT).AddProposal")
	addPartial := c.fn("bft.(*BFT).AddPartialQC")
	getMajority := c.fn("bft.(*BFT).GetMajorityVote")
	addSig := c.fn("bft.(*BFT).addSigToVoteSet")
	start := c.fn("bft.(*BFT).Start")
	for _, f := range []*ssa.Function{startPrecommitVote, startProposeVote, startElectionVote, startCommitProcess, handleHigh, newHeight, checkPP, safeNode, getProposal, checkHighQC, qcCheck, qcCheckBasic, viewCheck, viewLess, checkProposerMsg, handleMessage, addProposal, addPartial, getMajority, addSig, start} {
		if f == nil {
			return
		}
	}
	if highQCF == nil {
		return
	}
	sendToProposerM := c.p.IfaceMethod("bft", "Controller", "SendToProposer")
	selfSendBlockM := c.p.IfaceMethod("bft", "Controller", "SelfSendBlock")
	validateProposalM := c.p.IfaceMethod("bft", "Controller", "ValidateProposal")
	loadCommitteeM := c.p.IfaceMethod("bft", "Controller", "LoadCommittee")
	if !r.Anchor(sendToProposerM != nil && selfSendBlockM != nil && validateProposalM != nil && loadCommitteeM != nil, "bft.Controller.{SendToProposer,SelfSendBlock,ValidateProposal,LoadCommittee}") {
		return
	}
	msgNil := func(v ssa.Value) (string, bool) {
		if b, ok := v.(*ssa.BinOp); ok && (b.Op == token.EQL || b.Op == token.NEQ) && c.p.path(b.Y) == "nil" && c.p.path(b.X) == "$0.GetProposal()" {
			return "proposal==nil", b.Op == token.NEQ
		}
		return "", false
	}
	lockNil := func(v ssa.Value) (string, bool) {
		if b, ok := v.(*ssa.BinOp); ok && (b.Op == token.EQL || b.Op == token.NEQ) && c.p.path(b.Y) == "nil" && c.p.path(b.X) == "$0.HighQC" {
			return "lock==nil", b.Op == token.NEQ
		}
		return "", false
	}
	lockStore := storeFieldEvent("lock=", highQCF)

	// ------------------------------------------------------------------ R1
	r.Rule("R1", "WHO+MPT", "the lock BFT.HighQC is written only (a) by a replica after CheckProposerAndProposal accepted the PRECOMMIT message, (b) by a leader adopting a higher lock after CheckHighQC ok and the Less comparison, (c) cleared by NewHeight only when locks are not kept", 6)
	c.whoWrites("R1", highQCF, "BFT.HighQC", allow{
		startPrecommitVote: "replica lock on the +2/3 PROPOSE_VOTE certificate",
		handleHigh:         "leader adopts a verified higher lock submitted with an election vote",
		newHeight:          "cleared at a new height unless locks are kept",
	}, true)
	c.mpt(mptSpec{rule: "R1", fn: startPrecommitVote, events: evSet{"CheckProposerAndProposal": {checkPP}}, atom: msgNil,
		target: func(in ssa.Instruction, st *PState, e *pathEngine) string { return lockStore(in) },
		reqs:   func(string) []string { return []string{"@proposal==nil=F", "CheckProposerAndProposal#0=F"} }, minTarget: 1})
	for _, st := range storesTo(startPrecommitVote, highQCF) {
		p := c.p.path(st.Val)
		r.Check(p == "$0.GetProposal().Qc", "R1/StartPrecommitVotePhase/lock-value", c.p.Pos(st.Pos()), "locks on the validated message's certificate", "the replica locks on "+p+" instead of the certificate of the message that was validated")
	}
	c.mpt(mptSpec{rule: "R1", fn: handleHigh, events: evSet{"CheckHighQC": {checkHighQC}, "Header.Check": {viewCheck}, "Less": {viewLess}},
		extraEv: invokeEvent(map[*types.Func]string{loadCommitteeM: "LoadCommittee"}), atom: lockNil,
		target: func(in ssa.Instruction, st *PState, e *pathEngine) string { return lockStore(in) },
		reqs: func(string) []string {
			return []string{"Header.Check.ok", "LoadCommittee.ok", "CheckHighQC.ok", "@lock==nil=T|Less#0=T"}
		}, minTarget: 1})
	for _, st := range storesTo(handleHigh, highQCF) {
		p := c.p.path(st.Val)
		r.Check(p == "$1.HighQc", "R1/handleHighQC/lock-value", c.p.Pos(st.Pos()), "adopts the verified HighQc", "the leader adopts "+p+" instead of the HighQc that was verified")
	}
	for _, cs := range callsIn(handleHigh, false, checkHighQC) {
		recv, vs := c.p.path(recvOf(cs)), c.p.path(argOf(cs, 3))
		r.Check(recv == "$1.HighQc" && has(vs, ".LoadCommittee(") && has(vs, "$1.HighQc.Header.RootHeight"), "R1/handleHighQC/verified-value", c.p.Pos(cs.Pos()), "verifies the vote's HighQc against the committee of its root height", "CheckHighQC is applied to "+recv+" with committee "+vs)
	}
	for _, cs := range callsIn(handleHigh, false, viewLess) {
		a, b := c.p.path(recvOf(cs)), c.p.path(argOf(cs, 0))
		r.Check(a == "$0.HighQC.Header" && b == "$1.HighQc.Header", "R1/handleHighQC/less-operands", c.p.Pos(cs.Pos()), "adopts only a higher lock", "the higher-lock comparison is "+a+".Less("+b+"), expected current.Less(submitted)")
	}
	c.mpt(mptSpec{rule: "R1", fn: newHeight, events: evSet{},
		atom: func(v ssa.Value) (string, bool) {
			if b, ok := v.(*ssa.BinOp); ok && (b.Op == token.EQL || b.Op == token.NEQ) && c.p.path(b.X) == "$1" && c.p.path(b.Y) == "nil" {
				return "keepLocks==nil", b.Op == token.NEQ
			}
			if c.p.path(v) == "$1[0]" {
				return "keepLocks[0]", false
			}
			return "", false
		},
		target: func(in ssa.Instruction, st *PState, e *pathEngine) string { return lockStore(in) },
		reqs:   func(string) []string { return []string{"@keepLocks==nil=T|@keepLocks[0]=F"} }, minTarget: 1})

	// ------------------------------------------------------------------ R2
	r.Rule("R2", "MPT", "votes after validation: the PROPOSE vote is sent only with a proposal, SAFE-NODE ok unless unlocked, a fresh enough build height and ValidateProposal ok; the PRECOMMIT vote only after CheckProposerAndProposal accepted and the lock was taken; the self-commit only after CheckProposerAndProposal accepted; no other vote site exists", 5)
	sendEv := invokeEvent(map[*types.Func]string{sendToProposerM: "SendToProposer", selfSendBlockM: "SelfSendBlock", validateProposalM: "ValidateProposal"})
	sendTarget := func(in ssa.Instruction, st *PState, e *pathEngine) string {
		if cc := callCommon(in); cc != nil && cc.IsInvoke() && cc.Method == sendToProposerM {
			return "vote"
		}
		return ""
	}
	c.mpt(mptSpec{rule: "R2", fn: startProposeVote, events: evSet{"SafeNode": {safeNode}}, extraEv: sendEv,
		atom: atoms(msgNil, lockNil, cmpAtoms(c.p, cmpSpec{"buildTooOld", token.LSS, pathIs("$0.GetProposal().RcBuildHeight"), pathIs("$0.CommitteeData.LastRootHeightUpdated")})),
		kill: func(in ssa.Instruction) []string {
			if f, _, _ := storeField(in); f == highQCF {
				return []string{"lock==nil"}
			}
			return nil
		},
		target: sendTarget,
		reqs: func(string) []string {
			return []string{"@proposal==nil=F", "@lock==nil=T|SafeNode.ok", "@buildTooOld=F", "ValidateProposal.ok"}
		}, minTarget: 1})
	for _, cs := range callsIn(startProposeVote, false, safeNode) {
		p := c.p.path(argOf(cs, 0))
		r.Check(p == "$0.GetProposal()", "R2/StartProposeVotePhase/safenode-arg", c.p.Pos(cs.Pos()), "SAFE-NODE evaluated on the proposal", "SafeNode is evaluated on "+p+", not on the proposal being voted on")
	}
	instrs(startProposeVote, func(in ssa.Instruction) {
		if cc := callCommon(in); cc != nil && cc.IsInvoke() && cc.Method == validateProposalM {
			p := c.p.path(cc.Args[1])
			r.Check(p == "$0.GetProposal().Qc", "R2/StartProposeVotePhase/validated-qc", c.p.Pos(in.Pos()), "validates the proposal's certificate", "ValidateProposal is given "+p+", not the proposal's certificate")
		}
	})
	c.mpt(mptSpec{rule: "R2", fn: startPrecommitVote, events: evSet{"CheckProposerAndProposal": {checkPP}}, extraEv: firstOf(sendEv, lockStore), atom: msgNil,
		target: sendTarget,
		reqs: func(string) []string {
			return []string{"@proposal==nil=F", "CheckProposerAndProposal#0=F", "seen:lock="}
		}, minTarget: 1})
	c.mpt(mptSpec{rule: "R2", fn: startCommitProcess, events: evSet{"CheckProposerAndProposal": {checkPP}}, atom: msgNil,
		target: func(in ssa.Instruction, st *PState, e *pathEngine) string {
			if _, ok := in.(*ssa.Go); ok {
				return "self-commit-goroutine"
			}
			return ""
		},
		reqs: func(string) []string { return []string{"@proposal==nil=F", "CheckProposerAndProposal#0=F"} }, minTarget: 1})
	for _, cs := range callsIn(startPrecommitVote, false, checkPP) {
		r.Check(c.p.path(argOf(cs, 0)) == "$0.GetProposal()", "R2/StartPrecommitVotePhase/checked-msg", c.p.Pos(cs.Pos()), "checks the proposal it locks on", "CheckProposerAndProposal is applied to another message than the one locked on")
	}
	// enumerate every vote / self-commit site in bft
	nVote, nSelf := 0, 0
	for _, f := range c.p.Funcs {
		if pkgShort(f) != "bft" || isTestFile(c.p, f.Pos()) {
			continue
		}
		instrs(f, func(in ssa.Instruction) {
			cc := callCommon(in)
			if cc == nil || !cc.IsInvoke() {
				return
			}
			enc := enclosing(f)
			switch cc.Method {
			case sendToProposerM:
				nVote++
				ok := enc == startElectionVote || enc == startProposeVote || enc == startPrecommitVote
				why := "validated above"
				if enc == startElectionVote {
					why = "election vote: no proposal exists yet, nothing to validate (the candidate's VRF is checked on receipt)"
				}
				r.Check(ok, "R2/vote-site/"+fnName(enc), c.p.Pos(in.Pos()), why, "a vote is sent to the proposer from "+fnName(f)+", a site with no validation rule")
			case selfSendBlockM:
				nSelf++
				r.Check(enc == startCommitProcess && f != enc, "R2/self-commit-site/"+fnName(enc), c.p.Pos(in.Pos()), "self-commit inside StartCommitProcessPhase's goroutine (validated above)", "SelfSendBlock is called from "+fnName(f)+", outside the validated COMMIT_PROCESS goroutine")
			}
		})
	}
	r.Analysed["vote_sites"] = nVote
	r.Analysed["self_commit_sites"] = nSelf

	// ------------------------------------------------------------------ R3
	r.Rule("R3", "MPT+WHO", "thresholds: GetMajorityVote returns a message only on the true edge of TotalVotedPower >= MinimumMaj23; CheckHighQC returns nil only after Check ok and isPartialQC false (and root height, height and phase tests); every read of MinimumMaj23 is one of the known sites", 6)
	min23 := c.field("lib", "ValidatorSet", "MinimumMaj23")
	if min23 != nil {
		c.mpt(mptSpec{rule: "R3", fn: getMajority, events: evSet{},
			atom: ordAtom("power>=maj23", token.GEQ,
				func(x ssa.Value) bool { return strings.HasSuffix(c.p.path(x), ".TotalVotedPower") },
				func(y ssa.Value) bool { f, _ := loadedField(y); return f == min23 }),
			target: tgtReturnVal("majority-return", 0, true),
			reqs:   func(string) []string { return []string{"@power>=maj23=T"} }, minTarget: 1})
		c.mpt(mptSpec{rule: "R3", fn: checkHighQC, events: evSet{"Check": {qcCheck}},
			atom: cmpAtoms(c.p,
				cmpSpec{"staleRoot", token.GTR, pathIs("$3"), pathIs("$0.Header.RootHeight")},
				cmpSpec{"height==", token.EQL, pathIs("$0.Header.Height"), pathIs("$2.Height")},
				cmpSpec{"phase==PROPOSE_VOTE", token.EQL, pathIs("$0.Header.Phase"), pathAny()}),
			target: tgtOkReturn("ok-return"),
			reqs: func(string) []string {
				return []string{"Check.ok", "Check#0=F", "@staleRoot=F", "@height===T", "@phase==PROPOSE_VOTE=T"}
			}, minTarget: 1})
		// reads of MinimumMaj23
		allowedReads := map[string]string{
			"(*bft.BFT).GetMajorityVote":                     "+2/3 of votes for a payload",
			"(*lib.AggregateSignature).Check":                "+2/3 of signed power (C02.R4)",
			"(*bft.BFT).Pacemaker":                           "pacemaker: deliberately half of the threshold to jump rounds (liveness, not a certificate)",
			"(*controller.Controller).ConsensusSummary":      "RPC summary (read only)",
			"(*lib.ValidatorSet).MarshalJSON":                "JSON encoding",
			"(lib.ValidatorSet).MarshalJSON":                 "JSON encoding",
			"(*lib.ValidatorSet).UnmarshalJSON":              "JSON decoding",
			"(*controller.Controller).getConsensusSummary":   "RPC summary (read only)",
			"(*controller.Controller).ConsensusSummaryBytes": "RPC summary (read only)",
		}
		nReads := 0
		for _, f := range c.p.Funcs {
			if isTestFile(c.p, f.Pos()) || !inCanopy(f) {
				continue
			}
			instrs(f, func(in ssa.Instruction) {
				v, ok := in.(ssa.Value)
				if !ok {
					return
				}
				if fv, _ := loadedField(v); fv != min23 {
					return
				}
				nReads++
				enc := fnName(enclosing(f))
				if why, ok := allowedReads[enc]; ok {
					r.OK("R3/MinimumMaj23-read/"+enc, c.p.Pos(in.Pos()), why)
				} else {
					r.Bad("R3/MinimumMaj23-read/"+enc, c.p.Pos(in.Pos()), "the +2/3 threshold is read in "+enc+", which is not one of the known threshold sites: an ad-hoc quorum rule needs review")
				}
			})
		}
		r.Analysed["minimum_maj23_reads"] = nReads
		c.whoWrites("R3", min23, "ValidatorSet.MinimumMaj23", allow{c.fnQuiet("lib.NewValidatorSet"): "derived from total power when the set is built", c.fnQuiet("lib.(*ValidatorSet).UnmarshalJSON"): "JSON decoding"}, false)
	}

	// ------------------------------------------------------------------ R4
	r.Rule("R4", "MPT", "one vote per validator: addSigToVoteSet adds power and the signer only after SignerEnabledAt(idx) returned false for the voter's own index", 2)
	enabledM := c.p.IfaceMethod("lib/crypto", "MultiPublicKeyI", "SignerEnabledAt")
	addSignerM := c.p.IfaceMethod("lib/crypto", "MultiPublicKeyI", "AddSigner")
	powerF := c.field("bft", "VoteSet", "TotalVotedPower")
	getValIdx := c.fn("lib.(*ValidatorSet).GetValidatorAndIdx")
	if r.Anchor(enabledM != nil && addSignerM != nil, "crypto.MultiPublicKeyI.{SignerEnabledAt,AddSigner}") && powerF != nil && getValIdx != nil {
		c.mpt(mptSpec{rule: "R4", fn: addSig, events: evSet{"GetValidatorAndIdx": {getValIdx}},
			extraEv: invokeEvent(map[*types.Func]string{enabledM: "Enabled", addSignerM: "AddSigner"}),
			target: func(in ssa.Instruction, st *PState, e *pathEngine) string {
				if f, _, _ := storeField(in); f == powerF {
					return "power+="
				}
				if cc := callCommon(in); cc != nil && cc.IsInvoke() && cc.Method == addSignerM {
					return "AddSigner"
				}
				return ""
			},
			reqs: func(string) []string { return []string{"GetValidatorAndIdx.ok", "Enabled#1=T", "Enabled#0=F"} }, minTarget: 2})
		instrs(addSig, func(in ssa.Instruction) {
			if cc := callCommon(in); cc != nil && cc.IsInvoke() && (cc.Method == enabledM || cc.Method == addSignerM) {
				idx := c.p.path(cc.Args[len(cc.Args)-1])
				r.Check(strings.HasSuffix(idx, ".GetValidatorAndIdx($1.Signature.PublicKey)#1"), "R4/addSigToVoteSet/"+cc.Method.Name()+"-index", c.p.Pos(in.Pos()), "index of the voter's own key", cc.Method.Name()+" uses index "+idx+", not the index of the voter's public key")
			}
		})
		for _, st := range storesTo(addSig, powerF) {
			p := c.p.path(st.Val)
			r.Check(strings.HasSuffix(p, ".GetValidatorAndIdx($1.Signature.PublicKey)#0.VotingPower)") && strings.HasPrefix(p, "($2.TotalVotedPower + "), "R4/addSigToVoteSet/power-value", c.p.Pos(st.Pos()), "adds the voter's own voting power", "the vote set's power becomes "+p+", expected old + the voter's VotingPower")
		}
	}

	// ------------------------------------------------------------------ R5
	r.Rule("R5", "FLOW", "locks survive a root-chain reset: in BFT.Start the NewHeight call on the IsRootChainUpdate branch passes keepLocks=true, the new-height branch passes false", 2)
	nh := 0
	for _, g := range withAnons(start) {
		if len(callsIn(g, false, newHeight)) == 0 {
			continue
		}
		c.mpt(mptSpec{rule: "R5", fn: g, events: evSet{},
			atom: func(v ssa.Value) (string, bool) {
				if strings.HasSuffix(c.p.path(v), ".IsRootChainUpdate") {
					return "rootChainUpdate", false
				}
				return "", false
			},
			target: func(in ssa.Instruction, st *PState, e *pathEngine) string {
				ci, ok := in.(ssa.CallInstruction)
				if !ok || !callIs(ci.Common(), newHeight) {
					return ""
				}
				args := ci.Common().Args
				keep := false
				for _, el := range sliceLitElems(args[len(args)-1]) {
					if b, ok := boolConst(el); ok && b {
						keep = true
					}
				}
				if keep {
					return "NewHeight(keepLocks=true)"
				}
				return "NewHeight(keepLocks=false)"
			},
			reqs: func(l string) []string {
				if strings.Contains(l, "true") {
					return []string{"@rootChainUpdate=T"}
				}
				return []string{"@rootChainUpdate=F"}
			},
			minTarget: 0,
		})
		nh += len(callsIn(g, false, newHeight))
	}
	r.Check(nh == 2, "R5/Start/NewHeight-sites", c.p.Pos(start.Pos()), "two NewHeight sites in Start", fmt.Sprintf("expected two NewHeight call sites in BFT.Start (new height / root-chain update), found %d", nh))

	// ------------------------------------------------------------------ R6
	r.Rule("R6", "MPT", "leader-message validation: CheckProposerMessage accepts a message carrying a HighQc only after HighQc.CheckBasic ok and CheckHighQC ok (election messages excepted: they carry no proposal); its QC passed CheckBasic and Check; HandleMessage stores a proposal only after CheckProposerMessage ok and not partial", 3)
	msgCheckBasic := c.fn("bft.(*Message).checkBasic")
	electionVal := ""
	if o, ok := c.p.pkg("bft").Types.Scope().Lookup("Election").(*types.Const); ok {
		electionVal = o.Val().ExactString()
	}
	r.Anchor(electionVal != "", "bft.Election")
	if msgCheckBasic != nil && electionVal != "" {
		highQcF := c.field("bft", "Message", "HighQc")
		c.mpt(mptSpec{rule: "R6", fn: checkProposerMsg, events: evSet{"checkBasic": {msgCheckBasic}, "CheckHighQC": {checkHighQC}},
			extraEv: func(in ssa.Instruction) string {
				cc := callCommon(in)
				if cc == nil {
					return ""
				}
				if callIs(cc, qcCheckBasic) {
					switch c.p.path(cc.Args[0]) {
					case "$1.Qc":
						return "Qc.CheckBasic"
					case "$1.HighQc":
						return "HighQc.CheckBasic"
					}
				}
				if callIs(cc, qcCheck) && c.p.path(cc.Args[0]) == "$1.Qc" {
					return "Qc.Check"
				}
				return ""
			},
			atom: func(v ssa.Value) (string, bool) {
				if b, ok := v.(*ssa.BinOp); ok && (b.Op == token.EQL || b.Op == token.NEQ) {
					if f, _ := loadedField(b.X); f != nil && f == highQcF && c.p.path(b.Y) == "nil" {
						return "highQc==nil", b.Op == token.NEQ
					}
					if c.p.path(b.X) == "$1.Header.Phase" && c.p.path(b.Y) == electionVal {
						return "phase==Election", b.Op == token.NEQ
					}
				}
				return "", false
			},
			target: tgtOkReturn("ok-return"),
			reqs: func(string) []string {
				return []string{"checkBasic.ok", "@phase==Election=T|Qc.CheckBasic.ok", "@phase==Election=T|Qc.Check.ok",
					"@phase==Election=T|@highQc==nil=T|HighQc.CheckBasic.ok", "@phase==Election=T|@highQc==nil=T|CheckHighQC.ok"}
			}, minTarget: 2})
		for _, cs := range callsIn(checkProposerMsg, false, checkHighQC) {
			p := c.p.path(recvOf(cs))
			r.Check(p == "$1.HighQc", "R6/CheckProposerMessage/highqc-receiver", c.p.Pos(cs.Pos()), "verifies the message's HighQc", "CheckHighQC is applied to "+p+", not to the message's HighQc")
		}
	}
	c.mpt(mptSpec{rule: "R6", fn: handleMessage, events: evSet{"CheckProposerMessage": {checkProposerMsg}},
		target: tgtAny(tgtCall("AddProposal", addProposal), tgtCall("AddPartialQC", addPartial)),
		reqs: func(l string) []string {
			if l == "AddProposal" {
				return []string{"CheckProposerMessage.ok", "CheckProposerMessage#0=F"}
			}
			return []string{"CheckProposerMessage.ok", "CheckProposerMessage#0=T"}
		}, minTarget: 2})
	c.whoCalls("R6", addProposal, allow{handleMessage: "after CheckProposerMessage"})
	// SafeNode's own shape: nil only via SAFETY (same hashes as the lock) or LIVENESS (higher round), after the justification matches the proposal
	r.Rule("R7", "MPT", "SAFE-NODE releases a lock only for the locked proposal itself or for a justification that is newer than the lock in (root height, round) order: SafeNode returns nil only after the justification matched the proposal and either both hashes equal the lock's, or the justification's RootHeight is greater, or the RootHeights are equal and its Round is greater (Round restarts at 0 on a NEW_COMMITTEE reset while locks are kept, so Round alone does not order certificates)", 1)
	bytesEqual := lookupStd(c.p, "bytes", "Equal")
	if bytesEqual != nil {
		c.mpt(mptSpec{rule: "R7", fn: safeNode, events: evSet{},
			extraEv: func(in ssa.Instruction) string {
				cc := callCommon(in)
				if cc == nil || !callIs(cc, bytesEqual) {
					return ""
				}
				a, b := c.p.path(cc.Args[0]), c.p.path(cc.Args[1])
				switch {
				case strings.HasSuffix(a, "BlockToHash($1.Qc.Block)") && b == "$1.HighQc.BlockHash":
					return "justifiesBlock"
				case a == "$1.Qc.Results.Hash()" && b == "$1.HighQc.ResultsHash":
					return "justifiesResults"
				case a == "$0.HighQC.BlockHash" && b == "$1.HighQc.BlockHash":
					return "sameBlockAsLock"
				case a == "$0.HighQC.ResultsHash" && b == "$1.HighQc.ResultsHash":
					return "sameResultsAsLock"
				}
				return ""
			},
			atom: cmpAtoms(c.p,
				cmpSpec{"higherRound", token.GTR, pathIs("$1.HighQc.Header.Round"), pathIs("$0.HighQC.Header.Round")},
				cmpSpec{"newerRoot", token.GTR, pathIs("$1.HighQc.Header.RootHeight"), pathIs("$0.HighQC.Header.RootHeight")},
				cmpSpec{"sameRoot", token.EQL, pathIs("$1.HighQc.Header.RootHeight"), pathIs("$0.HighQC.Header.RootHeight")}),
			target: tgtOkReturn("ok-return"),
			reqs: func(string) []string {
				return []string{"justifiesBlock#0=T", "justifiesResults#0=T",
					"sameBlockAsLock#0=T|@newerRoot=T|@sameRoot=T", "sameBlockAsLock#0=T|@newerRoot=T|@higherRound=T",
					"sameResultsAsLock#0=T|@newerRoot=T|@sameRoot=T", "sameResultsAsLock#0=T|@newerRoot=T|@higherRound=T"}
			}, minTarget: 2})
	}
}
