package main

import (
	"fmt"
	"go/token"
	"go/types"
	"strings"

	"golang.org/x/tools/go/ssa"
)

func init() { register("C07", c07) }

// instrBefore reports whether a is executed before b on every path reaching b (a dominates b).
func instrBefore(a, b ssa.Instruction) bool {
	if a == nil || b == nil {
		return false
	}
	if a.Parent() != b.Parent() {
		// look through transparent helpers (newfn.go): an instruction inside one stands where its call stands
		a, b = liftInstr(a), liftInstr(b)
		if a == nil || b == nil || a.Parent() != b.Parent() {
			return false
		}
		if a == b {
			return false
		}
	}
	if a.Block() == b.Block() {
		for _, in := range a.Block().Instrs {
			if in == a {
				return true
			}
			if in == b {
				return false
			}
		}
		return false
	}
	return a.Block().Dominates(b.Block())
}

// defining returns the instruction that defines a value (nil for parameters/constants).
func defining(v ssa.Value) ssa.Instruction {
	if in, ok := v.(ssa.Instruction); ok {
		return in
	}
	return nil
}

// stripAssert removes type assertions / interface conversions around a value.
func stripAssert(v ssa.Value) ssa.Value {
	for {
		switch x := v.(type) {
		case *ssa.TypeAssert:
			v = x.X
		case *ssa.ChangeInterface:
			v = x.X
		case *ssa.MakeInterface:
			v = x.X
		case *ssa.Extract:
			if ta, ok := x.Tuple.(*ssa.TypeAssert); ok {
				v = ta.X
			} else {
				return v
			}
		default:
			return v
		}
	}
}

// invokeEvent names interface method calls by their resolved method object.
func invokeEvent(m map[*types.Func]string) func(in ssa.Instruction) string {
	return func(in ssa.Instruction) string {
		if _, isGo := in.(*ssa.Go); isGo {
			return ""
		}
		if cc := callCommon(in); cc != nil && cc.IsInvoke() {
			if n, ok := m[cc.Method]; ok {
				return n
			}
		}
		return ""
	}
}

// C07 — Transaction and block atomicity.
func c07(c *ctx) {
	r := c.r
	r.Explain = "Static decision of the roll-back discipline: (R1) path rule over ApplyTransactions' execution loop — on the failure edge of ApplyTransaction the complete undo set (AddFailed, ResetCaches, events.Reset, slash-tracker restore, SetStore(previous)) runs and Flush/Add do not, on the success edge Flush ok + SetStore + Add; the restored values are the ones read before the wrap; " +
		"(R2) every TxnWrap is undone by a SetStore on every exit; (R3) ResetCaches assigns every cache field; (R4) proposal/commit entry points reset speculative state on every exit and Store.Commit resets on every error exit; (R5) no state-writing error result is dropped in fsm; (R6) the proposer's oversize probing is rolled back in the caches as well as in the store; (R7) the slash-tracker snapshot restored on failure is a deep copy; (R8) the proposal vote configuration set for a proposal is undone on every exit."
	r.NotCovered = []string{"equality of the post-state with 'the block without the failed transactions' (semantic)", "process-wide caches (blockCache.Add before commit; argued harmless, F9)", "roll-back inside plugin processes"}
	r.Trusted = []string{"store.Txn discards its write set when dropped without Flush (C10 territory)"}

	applyTxs := c.fn("fsm.(*StateMachine).ApplyTransactions")
	applyTx := c.fn("fsm.(*StateMachine).ApplyTransaction")
	txnWrap := c.fn("fsm.(*StateMachine).TxnWrap")
	setStore := c.fn("fsm.(*StateMachine).SetStore")
	resetCaches := c.fn("fsm.(*StateMachine).ResetCaches")
	addFailed := c.fn("lib.(*ApplyBlockResults).AddFailed")
	addOK := c.fn("lib.(*ApplyBlockResults).Add")
	evReset := c.fn("lib.(*EventsTracker).Reset")
	slashF := c.field("fsm", "StateMachine", "slashTracker")
	flushM := c.p.IfaceMethod("lib", "StoreI", "Flush")
	discardM := c.p.IfaceMethod("lib", "StoreI", "Discard")
	r.Anchor(flushM != nil, "lib.StoreI.Flush")
	r.Anchor(discardM != nil, "lib.StoreI.Discard")
	if applyTxs == nil || applyTx == nil || txnWrap == nil || setStore == nil || resetCaches == nil || addFailed == nil || addOK == nil || evReset == nil || slashF == nil || flushM == nil || discardM == nil {
		return
	}

	// ------------------------------------------------------------------ R1
	r.Rule("R1", "PAIR", "ApplyTransactions: the failure edge of ApplyTransaction runs AddFailed, ResetCaches, events.Reset, slashTracker restore and SetStore(previous) and never Flush/Add; the success edge runs Flush ok, SetStore(previous), Add", 4)
	perIter := []string{"AddFailed", "ResetCaches", "EventsReset", "slashRestore", "SetStore", "Flush", "Add"}
	implFail := func(x string) string { return "ApplyTx.ok|!seen:ApplyTx|" + x }
	implOK := func(x string) string { return "ApplyTx.fail|!seen:ApplyTx|" + x }
	c.mpt(mptSpec{
		rule: "R1", fn: applyTxs,
		events:  evSet{"ApplyTx": {applyTx}, "AddFailed": {addFailed}, "ResetCaches": {resetCaches}, "EventsReset": {evReset}, "SetStore": {setStore}, "Add": {addOK}, "TxnWrap": {txnWrap}},
		extraEv: firstOf(storeFieldEvent("slashRestore", slashF), invokeEvent(map[*types.Func]string{flushM: "Flush"})),
		resets:  map[string][]string{"ApplyTx": perIter},
		// evaluated when the next transaction is executed (before its own events) and at every successful return
		target: tgtAny(tgtCall("next-iteration", applyTx), tgtOkReturn("ok-return")),
		reqs: func(string) []string {
			return []string{
				implFail("seen:AddFailed"), implFail("seen:ResetCaches"), implFail("seen:EventsReset"), implFail("seen:slashRestore"), implFail("seen:SetStore"),
				implFail("!seen:Flush"), implFail("!seen:Add"),
				implOK("Flush.ok"), implOK("seen:SetStore"), implOK("seen:Add"),
			}
		},
		minTarget: 2,
	})
	// the values restored are the ones taken before the per-transaction wrap
	var wraps []ssa.CallInstruction
	for _, cs := range callsIn(applyTxs, false, txnWrap) {
		wraps = append(wraps, cs)
	}
	var execWrap ssa.CallInstruction // the wrap whose result is flushed
	for _, w := range wraps {
		if v, ok := w.(ssa.Value); ok {
			instrs(applyTxs, func(in ssa.Instruction) {
				if cc := callCommon(in); cc != nil && cc.IsInvoke() && cc.Method == flushM {
					if ex, ok := cc.Value.(*ssa.Extract); ok && ex.Tuple == v {
						execWrap = w
					}
				}
			})
		}
	}
	if execWrap == nil {
		r.Unk("R1/ApplyTransactions/exec-wrap", c.p.Pos(applyTxs.Pos()), "could not identify the per-transaction TxnWrap whose transaction is flushed on success")
	} else {
		applyCalls := callsIn(applyTxs, false, applyTx)
		// (storesTo / callsIn look through transparent helpers, liftValue maps their parameters to the caller's arguments)
		for _, in := range storesTo(applyTxs, slashF) {
			val := liftValue(in.Val)
			def := defining(val)
			p := c.p.path(val)
			ok := strings.HasSuffix(p, ".slashTracker.Clone()") && def != nil && len(applyCalls) > 0 && instrBefore(def, applyCalls[0])
			r.Check(ok, "R1/ApplyTransactions/slashTracker-restore-value", c.p.Pos(in.Pos()), "restored value "+p+" is cloned before the transaction executes",
				"the slash tracker is restored from "+p+", which is not a Clone() taken before ApplyTransaction: slashes recorded by a failed transaction survive")
		}
		for _, cs := range callsIn(applyTxs, false, setStore) {
			if _, isDefer := cs.(*ssa.Defer); isDefer {
				continue
			}
			if !instrBefore(execWrap, cs) {
				continue // pre-pass, checked in R2
			}
			src := stripLift(argOf(cs, 0))
			p := c.p.path(src)
			def := defining(src)
			ok := p == "$0.Store()" && def != nil && instrBefore(def, execWrap)
			r.Check(ok, "R1/ApplyTransactions/SetStore-value", c.p.Pos(cs.Pos()), "store restored to "+p+" read before the wrap",
				"SetStore restores "+p+", which is not the store read (s.Store()) before the transaction's TxnWrap: writes of a failed transaction stay visible")
		}
	}

	// ------------------------------------------------------------------ R2
	r.Rule("R2", "PAIR", "every TxnWrap is followed on every path to function exit by SetStore of a store read before the wrap (directly or deferred)", 3)
	nWrap := 0
	for _, f := range c.p.Funcs {
		sh := pkgShort(f)
		if sh != "fsm" && sh != "controller" {
			continue
		}
		cs := callsIn(f, false, txnWrap)
		if len(cs) == 0 || isTestFile(c.p, f.Pos()) {
			continue
		}
		nWrap += len(cs)
		c.mpt(mptSpec{
			rule: "R2", fn: f,
			events: evSet{"TxnWrap": {txnWrap}, "SetStore": {setStore}},
			resets: map[string][]string{"TxnWrap": {"SetStore"}},
			target: func(in ssa.Instruction, st *PState, e *pathEngine) string {
				if _, ok := in.(*ssa.Return); ok && in.Parent() == e.r.Fn {
					return "exit"
				}
				return ""
			},
			reqs: func(string) []string {
				return []string{"!seen:TxnWrap|TxnWrap.fail|seen:SetStore|deferred:SetStore"}
			},
			minTarget: 1,
		})
		// every SetStore argument (incl. deferred) is a store read from s.Store() before some wrap
		for _, ss := range callsIn(f, false, setStore) {
			src := stripLift(argOf(ss, 0))
			p := c.p.path(src)
			def := defining(src)
			okv := p == "$0.Store()" && def != nil
			if okv {
				// the read must not be after the wrap it undoes: it must precede at least one wrap that precedes the SetStore (or, deferred, any wrap after the defer)
				pre := false
				for _, w := range cs {
					if instrBefore(def, w) {
						pre = true
					}
				}
				okv = pre
			}
			r.Check(okv, "R2/"+fnName(f)+"/SetStore-arg", c.p.Pos(ss.Pos()), "SetStore("+p+") restores a store read before a wrap",
				"SetStore("+p+") does not restore a store that was read via s.Store() before the TxnWrap it undoes")
		}
	}
	r.Analysed["txnwrap_sites"] = nWrap

	// ------------------------------------------------------------------ R3
	r.Rule("R3", "COVER", "ResetCaches assigns every field of the FSM cache (sharedCache excepted: height-keyed and immutable); Reset = new slash tracker + ResetCaches + store.Reset", 8)
	c.ruleCachesCleared("R3")

	// ------------------------------------------------------------------ R4
	r.Rule("R4", "PAIR", "rejected proposals/blocks leave no trace: ValidateProposal resets before touching state; ProduceProposal and CommitCertificate defer FSM.Reset before any apply; CommitCertificate resets before a fresh ApplyAndValidateBlock; RoundInterrupt's controller hook resets; Store.Commit resets on every error exit after the batch was touched", 6)
	c.ruleSpeculativeReset("R4")

	// ------------------------------------------------------------------ R5
	c07dropped(c)

	// ------------------------------------------------------------------ R6
	c.ruleOversizeRolledBack("R6")

	// ------------------------------------------------------------------ R7
	r.Rule("R7", "ALIAS", "roll-back snapshots are deep: the copy SlashTracker.Clone returns shares no inner map with the live tracker — every reference-typed element put into the copy is allocated in Clone, and no shallow library clone (maps.Clone / slices.Clone) is applied to a container of maps, slices or pointers", 2)
	if clone := c.fn("fsm.(*SlashTracker).Clone"); clone != nil {
		c.deepCopyCheck("R7", clone)
	}

	// ------------------------------------------------------------------ R8
	c.ruleConsensusModeReset("R8")
}

// ruleConsensusModeReset (C07.R8): SetFSMInConsensusModeForProposals switches both state machines to the strict proposal
// vote configuration and hands back the function that undoes it; FSM.Reset does not touch that field. A caller that can
// return without having called (or deferred) the undo function leaves the working state machines in consensus mode after a
// rejected proposal: the next committed block with a governance transaction then fails on this node only.
func (c *ctx) ruleConsensusModeReset(R string) {
	r := c.r
	r.Rule(R, "PAIR", "consensus mode is undone on every exit: in every function that calls SetFSMInConsensusModeForProposals, each path from the call to a return passes a call or a defer of the reset function it returned", 5)
	set := c.fn("controller.(*Controller).SetFSMInConsensusModeForProposals")
	if set == nil {
		return
	}
	n := 0
	for _, f := range c.p.Funcs {
		if !inCanopyRaw(f) || isTestFile(c.p, f.Pos()) {
			continue
		}
		for _, b := range f.Blocks {
			for i, in := range b.Instrs {
				call, ok := in.(*ssa.Call)
				if !ok || !callIs(call.Common(), set) {
					continue
				}
				n++
				name := fnName(enclosing(f))
				if call.Referrers() == nil || len(*call.Referrers()) == 0 {
					r.Bad(fmt.Sprintf("%s/%s/reset", R, name), c.p.Pos(call.Pos()), name+" discards the reset function SetFSMInConsensusModeForProposals returned: the state machines stay in consensus mode")
					continue
				}
				isReset := func(x ssa.Instruction) bool {
					var cc *ssa.CallCommon
					switch y := x.(type) {
					case *ssa.Call:
						cc = y.Common()
					case *ssa.Defer:
						cc = y.Common()
					default:
						return false
					}
					if cc.IsInvoke() {
						return false
					}
					if sameFuncValue(cc.Value, call) {
						return true
					}
					// a closure (called in place or deferred) that calls the reset function
					if mc, ok := cc.Value.(*ssa.MakeClosure); ok {
						if g, ok := mc.Fn.(*ssa.Function); ok {
							found := false
							for _, h := range withAnons(g) {
								instrs(h, func(in2 ssa.Instruction) {
									if c2 := callCommon(in2); c2 != nil && !c2.IsInvoke() && sameFuncValue(c2.Value, call) {
										found = true
									}
								})
							}
							return found
						}
					}
					return false
				}
				ret := returnAvoiding(b, i+1, isReset)
				r.Check(ret == nil, fmt.Sprintf("%s/%s/reset", R, name), c.p.Pos(call.Pos()), "reset called or deferred on every path to a return", func() string {
					if ret == nil {
						return ""
					}
					return fmt.Sprintf("%s can return at %s without having called or deferred the reset function of SetFSMInConsensusModeForProposals: after that exit FSM and mempool FSM stay in consensus mode (REJECT_ALL / APPROVE_LIST), and FSM.Reset does not clear it", name, c.p.Pos(ret.Pos()))
				}())
			}
		}
	}
	r.Analysed["consensus_mode_sites"] = n
}

// sameFuncValue: val is the function value `src` — directly, or read back from the local variable it was put in
// (a variable captured by a closure lives in a cell; the closure sees it as a free variable).
func sameFuncValue(val ssa.Value, src ssa.Value) bool {
	if val == src {
		return true
	}
	u, ok := val.(*ssa.UnOp)
	if !ok || u.Op != token.MUL {
		return false
	}
	cell := bindingOf(u.X)
	a, ok := cell.(*ssa.Alloc)
	if !ok || a.Referrers() == nil {
		return false
	}
	stores, fromSrc := 0, 0
	for _, ref := range *a.Referrers() {
		if st, ok := ref.(*ssa.Store); ok && st.Addr == a {
			stores++
			if st.Val == src {
				fromSrc++
			}
		}
	}
	return stores > 0 && stores == fromSrc
}

// returnAvoiding searches the control-flow graph from instruction index `from` of block b for a path to a Return that
// passes no instruction for which stop holds; it returns that Return (nil if every path is stopped). Panics are not exits.
func returnAvoiding(b *ssa.BasicBlock, from int, stop func(ssa.Instruction) bool) *ssa.Return {
	seen := map[*ssa.BasicBlock]bool{}
	var walk func(b *ssa.BasicBlock, from int) *ssa.Return
	walk = func(b *ssa.BasicBlock, from int) *ssa.Return {
		for i := from; i < len(b.Instrs); i++ {
			in := b.Instrs[i]
			if stop(in) {
				return nil
			}
			if ret, ok := in.(*ssa.Return); ok {
				return ret
			}
		}
		for _, s := range b.Succs {
			if seen[s] {
				continue
			}
			seen[s] = true
			if ret := walk(s, 0); ret != nil {
				return ret
			}
		}
		return nil
	}
	return walk(b, from)
}

// isRefType: a value through which the holder can observe later writes (map, slice, pointer, chan).
func isRefType(t types.Type) bool {
	switch t.Underlying().(type) {
	case *types.Map, *types.Slice, *types.Pointer, *types.Chan:
		return true
	}
	return false
}

// deepCopyCheck (C07.R7): in a function that promises a deep copy, (a) every reference-typed value stored into a container
// the function allocates (map update, element store, field store, append) is itself allocated in the function, and (b) no
// shallow library clone is applied to a container whose elements are reference-typed, and (c) the parameter itself is not
// returned as the copy.
func (c *ctx) deepCopyCheck(R string, f *ssa.Function) {
	r := c.r
	name := fnName(f)
	fresh := func(v ssa.Value) bool {
		for i := 0; i < 6; i++ {
			switch x := v.(type) {
			case *ssa.MakeMap, *ssa.MakeSlice, *ssa.Alloc:
				return true
			case *ssa.Const:
				return true // nil
			case *ssa.Slice:
				v = x.X
			case *ssa.Phi:
				for _, e := range x.Edges {
					if !localAddr(e) {
						if _, isNil := e.(*ssa.Const); !isNil {
							return false
						}
					}
				}
				return true
			case *ssa.Call:
				if n := calleeName(x.Common()); n == "bytes.Clone" || strings.HasPrefix(n, "slices.Clone") || strings.HasPrefix(n, "maps.Clone") {
					// a clone of a flat slice is fresh; of a slice of references it is shallow (reported below)
					return true
				}
				if bi, ok := x.Common().Value.(*ssa.Builtin); ok && bi.Name() == "append" && len(x.Common().Args) > 0 {
					v = x.Common().Args[0]
					continue
				}
				return false
			default:
				return false
			}
		}
		return false
	}
	n := 0
	for _, g := range bodyFuncs(f, true) {
		for _, b := range g.Blocks {
			for _, in := range b.Instrs {
				switch x := in.(type) {
				case *ssa.MapUpdate:
					if isRefType(x.Value.Type()) {
						n++
						r.Check(fresh(x.Value), R+"/"+name+"/element", c.p.Pos(x.Pos()), "inner "+x.Value.Type().String()+" allocated by the copy", name+" stores "+c.p.path(x.Value)+" (a "+x.Value.Type().String()+") into the copy without copying it: the snapshot shares it with the live object, so a rolled-back operation's writes survive in the restored snapshot")
					}
				case *ssa.Call:
					cn := calleeName(x.Common())
					if strings.HasPrefix(cn, "maps.Clone") || strings.HasPrefix(cn, "slices.Clone") || strings.HasPrefix(cn, "maps.Copy") {
						var elem types.Type
						arg := x.Common().Args[len(x.Common().Args)-1]
						switch t := arg.Type().Underlying().(type) {
						case *types.Map:
							elem = t.Elem()
						case *types.Slice:
							elem = t.Elem()
						}
						if elem != nil {
							n++
							r.Check(!isRefType(elem), R+"/"+name+"/library-clone", c.p.Pos(x.Pos()), cn+" of a flat container", name+" copies with "+cn+", which is shallow, a container whose elements are "+elem.String()+": the snapshot shares them with the live object, so a rolled-back operation's writes survive in the restored snapshot")
						}
					}
				case *ssa.Return:
					for _, res := range x.Results {
						if pa, ok := res.(*ssa.Parameter); ok && g == f && isRefType(pa.Type()) {
							n++
							r.Bad(R+"/"+name+"/returns-input", c.p.Pos(x.Pos()), name+" returns its input "+pa.Name()+" as the copy")
						}
					}
				}
			}
		}
	}
	r.Check(n >= 1, R+"/"+name+"/copies", c.p.Pos(f.Pos()), fmt.Sprintf("%d element copies examined", n), name+" contains no element copy any more (rule needs re-reading)")
}

// ruleOversizeRolledBack (C07.R6 / C11.R7): transactions recorded as 'oversize' were executed inside a store wrapper that
// is dropped when ApplyTransactions returns; the FSM caches are write-through, so they must be dropped too, after the last
// executed transaction, before the caller (ApplyBlock -> EndBlock) reads state again.
func (c *ctx) ruleOversizeRolledBack(R string) {
	r := c.r
	r.Rule(R, "PAIR", "ApplyTransactions: on every successful return on which a transaction may have been recorded as oversize (executed inside the throw-away store wrapper), ResetCaches has run after the last executed transaction, so the caches do not carry rolled-back effects into EndBlock", 1)
	applyTxs := c.fn("fsm.(*StateMachine).ApplyTransactions")
	applyTx := c.fn("fsm.(*StateMachine).ApplyTransaction")
	resetCaches := c.fn("fsm.(*StateMachine).ResetCaches")
	addOK := c.fn("lib.(*ApplyBlockResults).Add")
	if applyTxs == nil || applyTx == nil || resetCaches == nil || addOK == nil {
		return
	}
	adds := callsIn(applyTxs, false, addOK)
	if len(adds) != 1 {
		r.Unk(R+"/ApplyTransactions/oversize-flag", c.p.Pos(applyTxs.Pos()), fmt.Sprintf("expected exactly one call of ApplyBlockResults.Add in ApplyTransactions, found %d", len(adds)))
		return
	}
	flag := argOf(adds[0], 4)
	if flag == nil || !isBoolType(flag.Type()) {
		r.Unk(R+"/ApplyTransactions/oversize-flag", c.p.Pos(adds[0].Pos()), "the oversized argument of ApplyBlockResults.Add could not be identified")
		return
	}
	if k, isConst := flag.(*ssa.Const); isConst {
		// no transaction is ever recorded as oversize: nothing to roll back
		r.OK(R+"/ApplyTransactions/oversize-flag", c.p.Pos(adds[0].Pos()), "the oversized flag is the constant "+k.Value.String())
		return
	}
	// the oversize wrap itself: the TxnWrap whose transaction value is never used (never flushed)
	var oversizeWrap ssa.Instruction
	if txnWrap := c.fn("fsm.(*StateMachine).TxnWrap"); txnWrap != nil {
		for _, cs := range callsIn(applyTxs, false, txnWrap) {
			v, ok := cs.(ssa.Value)
			if !ok {
				continue
			}
			used := false
			for _, ref := range *v.Referrers() {
				if ex, ok := ref.(*ssa.Extract); ok && ex.Index == 0 && len(*ex.Referrers()) > 0 {
					used = true
				}
			}
			if !used {
				oversizeWrap = cs.(ssa.Instruction)
			}
		}
	}
	c.mpt(mptSpec{
		rule: R, fn: applyTxs,
		events: evSet{"ApplyTx": {applyTx}, "ResetCaches": {resetCaches}},
		extraEv: func(in ssa.Instruction) string {
			if oversizeWrap != nil && in == oversizeWrap {
				return "OversizeWrap"
			}
			return ""
		},
		resets: map[string][]string{"ApplyTx": {"ResetCaches"}},
		target: tgtOkReturn("ok-return"),
		check: func(label string, in ssa.Instruction, st *PState, e *pathEngine) string {
			if st.Seen("ApplyTx") == 0 || st.Seen("ResetCaches") > 0 {
				return ""
			}
			if e.known(st, flag) == False && st.Seen("OversizeWrap") == 0 {
				return ""
			}
			return "a transaction was executed in the oversize wrapper (flag " + c.p.path(flag) + " not known false, or the wrap was taken) and ResetCaches does not run after the last ApplyTransaction: the account/pool/param caches keep the rolled-back effects and EndBlock computes a state root no replica reproduces"
		},
		desc:      "oversize flag known false, or ResetCaches seen after the last ApplyTransaction",
		minTarget: 1,
	})
}

// storesTo returns the stores into field fv in f.
func storesTo(f *ssa.Function, fv *types.Var) []*ssa.Store {
	var out []*ssa.Store
	for _, g := range bodyFuncs(f, false) {
		instrs(g, func(in ssa.Instruction) {
			if v, _, _ := storeField(in); v != nil && v == fv {
				out = append(out, in.(*ssa.Store))
			}
		})
	}
	return out
}

// c07dropped: R5 — errors of state-writing calls must not be dropped in the consensus-reachable part of fsm.
func c07dropped(c *ctx) {
	r := c.r
	r.Rule("R5", "ERR", "in fsm functions reachable from ApplyBlock, a call that can write state (reaches a store Set/Delete) and returns lib.ErrorI must not have its error discarded", 1)
	applyBlock := c.fn("fsm.(*StateMachine).ApplyBlock")
	if applyBlock == nil {
		return
	}
	smSet, smDel := c.fn("fsm.(*StateMachine).Set"), c.fn("fsm.(*StateMachine).Delete")
	if smSet == nil || smDel == nil {
		return
	}
	// writers: canopy functions in fsm from which Set/Delete is reachable
	reach := c.p.reachable([]*ssa.Function{applyBlock}, func(f *ssa.Function) bool { return !inCanopy(f) })
	writes := map[*ssa.Function]bool{smSet: true, smDel: true}
	changed := true
	for changed {
		changed = false
		for f := range reach {
			if writes[f] || pkgShort(f) != "fsm" {
				continue
			}
			n := c.p.CG.Nodes[f]
			if n == nil {
				continue
			}
			for _, e := range n.Out {
				if writes[e.Callee.Func] {
					writes[f] = true
					changed = true
					break
				}
			}
		}
	}
	// table of deliberate discards: function -> reason
	deliberate := map[string]string{
		"(*fsm.StateMachine).SlashAndResetNonSigners->(*fsm.StateMachine).DeleteAll": "explicit `_ =` in the source: clearing the non-signer window; deletes into the in-memory transaction",
		"(*fsm.StateMachine).ApplyBlock->(*fsm.StateMachine).LoadCommittee":          "a read of a historical committee (flagged only because the call graph over-approximates); a missing set yields the empty validator root",
	}
	checked, dropped := 0, 0
	for _, f := range sortedFuncs(reach) {
		if pkgShort(f) != "fsm" || isTestFile(c.p, f.Pos()) {
			continue
		}
		instrs(f, func(in ssa.Instruction) {
			call, ok := in.(*ssa.Call)
			if !ok {
				return
			}
			callee := staticCallee(call.Common())
			if callee == nil || !writes[callee] {
				return
			}
			ei := callErrIdx(call.Common())
			if ei < 0 {
				return
			}
			checked++
			// is the error result used?
			used := false
			if _, isTuple := call.Type().(*types.Tuple); isTuple {
				for _, ref := range *call.Referrers() {
					if ex, ok := ref.(*ssa.Extract); ok && ex.Index == ei && len(*ex.Referrers()) > 0 {
						used = true
					}
				}
			} else {
				used = len(*call.Referrers()) > 0
			}
			if used {
				return
			}
			dropped++
			key := fnName(f) + "->" + fnName(callee)
			if reason, ok := deliberate[key]; ok {
				r.OK("R5/dropped/"+key, c.p.Pos(call.Pos()), "deliberate discard: "+reason)
			} else {
				r.Bad("R5/dropped/"+key, c.p.Pos(call.Pos()), fmt.Sprintf("the error returned by %s (a state-writing call) is discarded in %s: a failed write would go unnoticed and the transaction would not be rolled back", fnName(callee), fnName(f)))
			}
		})
	}
	r.Analysed["r5_state_writing_calls_checked"] = checked
	r.OK("R5/summary", c.p.Pos(applyBlock.Pos()), fmt.Sprintf("%d state-writing call sites with an error result examined in %d reachable functions, %d discarded", checked, len(reach), dropped))
}

// ruleCachesCleared (C07.R3 / C03.R5): ResetCaches assigns every cache field; Reset = tracker + caches + store.
func (c *ctx) ruleCachesCleared(R string) {
	r := c.r
	resetCaches := c.fn("fsm.(*StateMachine).ResetCaches")
	slashF := c.field("fsm", "StateMachine", "slashTracker")
	if resetCaches == nil || slashF == nil {
		return
	}
	cacheT := c.p.Named("fsm", "cache")
	if r.Anchor(cacheT != nil, "fsm.cache") {
		written := map[string]bool{}
		instrs(resetCaches, func(in ssa.Instruction) {
			if fv, base, _ := storeField(in); fv != nil {
				if nt := namedOf(base.Type()); nt != nil && nt.Obj() == cacheT.Obj() {
					written[fv.Name()] = true
				}
			}
			// a whole-struct assignment (*s.cache = cache{...}) gives every field a value: those the literal names and
			// the zero value for the others
			if st, ok := in.(*ssa.Store); ok {
				if nt := namedOf(st.Val.Type()); nt != nil && nt.Obj() == cacheT.Obj() {
					if _, isPtr := st.Val.Type().(*types.Pointer); !isPtr {
						for _, f := range allFields(cacheT) {
							written[f] = true
						}
					}
				}
			}
		})
		c.coverCheck(R, "ResetCaches", cacheT, allFields(cacheT), written, map[string]string{"sharedCache": "height-keyed historical validator lists, never mutated by a borrower (C13.R1)"}, c.p.Pos(resetCaches.Pos()))
	}
	fsmReset := c.fn("fsm.(*StateMachine).Reset")
	storeResetM := c.p.IfaceMethod("lib", "StoreI", "Reset")
	if fsmReset != nil && r.Anchor(storeResetM != nil, "lib.StoreI.Reset") {
		c.mpt(mptSpec{
			rule: R, fn: fsmReset,
			events:  evSet{"ResetCaches": {resetCaches}},
			extraEv: firstOf(storeFieldEvent("slashTracker=", slashF), invokeEvent(map[*types.Func]string{storeResetM: "store.Reset"})),
			target: func(in ssa.Instruction, st *PState, e *pathEngine) string {
				if _, ok := in.(*ssa.Return); ok {
					return "exit"
				}
				return ""
			},
			reqs:      func(string) []string { return []string{"seen:ResetCaches", "seen:slashTracker=", "seen:store.Reset"} },
			minTarget: 1,
		})
	}

}

// ruleSpeculativeReset (C07.R4 / C03.R4): proposal / commit entry points reset speculative state on every exit.
func (c *ctx) ruleSpeculativeReset(R string) {
	r := c.r
	fsmReset := c.fn("fsm.(*StateMachine).Reset")
	validateProposal := c.fn("controller.(*Controller).ValidateProposal")
	produceProposal := c.fn("controller.(*Controller).ProduceProposal")
	commitCert := c.fn("controller.(*Controller).CommitCertificate")
	commitCertPar := c.fnQuiet("controller.(*Controller).CommitCertificateParallel")
	applyAndValidate := c.fn("controller.(*Controller).ApplyAndValidateBlock")
	indexQC := c.fn("store.(*Store).IndexQC")
	indexBlock := c.fn("store.(*Store).IndexBlock")
	loadProposal := c.fnQuiet("controller.(*Controller).loadProposalBlockLocked")
	if fsmReset != nil && validateProposal != nil && applyAndValidate != nil {
		c.mpt(mptSpec{
			rule: R, fn: validateProposal,
			events:    evSet{"Reset": {fsmReset}},
			target:    tgtCall("ApplyAndValidateBlock", applyAndValidate),
			reqs:      func(string) []string { return []string{"seen:Reset"} },
			minTarget: 1,
		})
	}
	if fsmReset != nil && produceProposal != nil && loadProposal != nil {
		c.mpt(mptSpec{
			rule: R, fn: produceProposal,
			events:    evSet{"Reset": {fsmReset}},
			target:    tgtCall("loadProposalBlockLocked", loadProposal),
			reqs:      func(string) []string { return []string{"deferred:Reset"} },
			minTarget: 1,
		})
	}
	for _, cc := range []*ssa.Function{commitCert, commitCertPar} {
		if cc == nil || fsmReset == nil || applyAndValidate == nil || indexQC == nil || indexBlock == nil {
			continue
		}
		c.mpt(mptSpec{
			rule: R, fn: cc,
			events: evSet{"Reset": {fsmReset}},
			target: tgtAny(tgtCall("ApplyAndValidateBlock", applyAndValidate), tgtCall("IndexQC", indexQC), tgtCall("IndexBlock", indexBlock)),
			reqs: func(l string) []string {
				if l == "ApplyAndValidateBlock" {
					return []string{"deferred:Reset", "seen:Reset"}
				}
				return []string{"deferred:Reset"}
			},
			minTarget: 3,
		})
	}
	// Store.Commit: every error return after setCommitID touched the batch calls Reset
	storeCommit := c.fn("store.(*Store).Commit")
	storeReset := c.fn("store.(*Store).Reset")
	setCommitID := c.fn("store.(*Store).setCommitID")
	if storeCommit != nil && storeReset != nil && setCommitID != nil {
		c.mpt(mptSpec{
			rule: R, fn: storeCommit,
			events: evSet{"setCommitID": {setCommitID}, "Reset": {storeReset}},
			target: func(in ssa.Instruction, st *PState, e *pathEngine) string {
				ret, ok := in.(*ssa.Return)
				if !ok || in.Parent() != e.r.Fn {
					return ""
				}
				if e.RetNil(ret, errIdx(e.r.Fn), st) == True {
					return "ok-return"
				}
				return "error-return"
			},
			reqs: func(l string) []string {
				if l == "error-return" {
					return []string{"!seen:setCommitID|seen:Reset"}
				}
				return []string{"seen:Reset"}
			},
			minTarget: 2,
		})
	}
	// RoundInterrupt -> Controller.ResetFSM
	roundInterrupt := c.fn("bft.(*BFT).RoundInterrupt")
	resetFSMm := c.p.IfaceMethod("bft", "Controller", "ResetFSM")
	if roundInterrupt != nil && r.Anchor(resetFSMm != nil, "bft.Controller.ResetFSM") {
		c.mpt(mptSpec{
			rule: R, fn: roundInterrupt,
			extraEv: invokeEvent(map[*types.Func]string{resetFSMm: "ResetFSM"}),
			events:  evSet{},
			target: func(in ssa.Instruction, st *PState, e *pathEngine) string {
				if _, ok := in.(*ssa.Return); ok && in.Parent() == e.r.Fn {
					return "exit"
				}
				return ""
			},
			reqs:      func(string) []string { return []string{"seen:ResetFSM"} },
			minTarget: 1,
		})
		ctrlResetFSM := c.fn("controller.(*Controller).ResetFSM")
		if ctrlResetFSM != nil && fsmReset != nil {
			n := len(callsIn(ctrlResetFSM, true, fsmReset))
			r.Check(n > 0, R+"/Controller.ResetFSM/calls-Reset", c.p.Pos(ctrlResetFSM.Pos()), "Controller.ResetFSM calls FSM.Reset", "Controller.ResetFSM no longer resets the FSM: a round interrupt leaves speculative state behind")
		}
	}

}
