package main

import (
	"fmt"
	"go/ast"
	"go/token"
	"go/types"
	"os"
	"os/exec"
	"sort"
	"strings"
	"time"

	"golang.org/x/tools/go/callgraph"
	"golang.org/x/tools/go/callgraph/cha"
	"golang.org/x/tools/go/callgraph/vta"
	"golang.org/x/tools/go/packages"
	"golang.org/x/tools/go/ssa"
	"golang.org/x/tools/go/ssa/ssautil"
)

const modPath = "github.com/canopy-network/canopy"

// corePkgs are the packages the properties are anchored in; they must load with zero errors.
var corePkgs = []string{"bft", "controller", "fsm", "lib", "lib/crypto", "lib/codec", "p2p", "store"}

// Prog is the resolved program all rules work on.
type Prog struct {
	RepoDir string
	Fset    *token.FileSet
	Pkgs    map[string]*packages.Package // by import path (canopy only)
	All     []*packages.Package          // every package loaded (incl. dependencies)
	SSA     *ssa.Program
	SSAPkg  map[string]*ssa.Package
	CG      *callgraph.Graph
	CGKind  string
	// canopy functions (source functions incl. anonymous ones) in deterministic order
	Funcs []*ssa.Function
	// statistics for evidence
	Stats map[string]int
	// errors outside the core packages that were tolerated
	Tolerated []string
	LoadS     float64
	nf        *newFnInfo
	bound     map[*ssa.Parameter][]ssa.Value // parameters of helpers being analysed in place -> the arguments of that call
}

func isCanopyPath(p string) bool { return p == modPath || strings.HasPrefix(p, modPath+"/") }

func gitStatus(dir string) string {
	out, _ := exec.Command("git", "-C", dir, "status", "--porcelain").Output()
	return string(out)
}

// Load type-checks /repo's current working tree (never a cache of it) and builds SSA + call graph.
func Load(repo string, thorough bool) (*Prog, error) {
	t0 := time.Now()
	before := gitStatus(repo)
	cfg := &packages.Config{
		Mode:       packages.LoadAllSyntax,
		Dir:        repo,
		Tests:      false,
		BuildFlags: []string{"-mod=readonly", "-tags=verif"},
		Env:        append(os.Environ(), "GOFLAGS=-mod=readonly", "GOWORK=off"),
	}
	patterns := []string{}
	for _, p := range corePkgs {
		patterns = append(patterns, "./"+p)
	}
	// cmd/ holds the RPC server and the binary's main: they are callers that who-may-call rules must see.
	patterns = append(patterns, "./cmd/...")
	pkgs, err := packages.Load(cfg, patterns...)
	if err != nil {
		return nil, fmt.Errorf("packages.Load: %v", err)
	}
	if after := gitStatus(repo); after != before {
		return nil, fmt.Errorf("loading modified the repository working tree:\n%s", after)
	}
	p := &Prog{RepoDir: repo, Pkgs: map[string]*packages.Package{}, SSAPkg: map[string]*ssa.Package{}, Stats: map[string]int{}}
	core := map[string]bool{}
	for _, c := range corePkgs {
		core[modPath+"/"+c] = true
	}
	var hard []string
	packages.Visit(pkgs, nil, func(pk *packages.Package) {
		p.All = append(p.All, pk)
		if isCanopyPath(pk.PkgPath) {
			p.Pkgs[pk.PkgPath] = pk
		}
		for _, e := range pk.Errors {
			msg := fmt.Sprintf("%s: %s", pk.PkgPath, e.Error())
			// the only tolerated error: cmd/rpc embeds web bundles that are not built in this image;
			// it is a go list error, the package still type-checks completely.
			if !core[pk.PkgPath] && strings.Contains(e.Error(), "pattern all:web/") {
				p.Tolerated = append(p.Tolerated, msg)
				continue
			}
			hard = append(hard, msg)
		}
		if isCanopyPath(pk.PkgPath) && (pk.Types == nil || pk.TypesInfo == nil || pk.IllTyped) {
			// IllTyped is also set by the embed list error; accept only if no type errors were recorded
			if pk.Types == nil || pk.TypesInfo == nil {
				hard = append(hard, pk.PkgPath+": no type information")
			}
		}
	})
	if len(hard) > 0 {
		sort.Strings(hard)
		return nil, fmt.Errorf("load/type errors (analysis refuses to run on a tree it cannot type-check):\n  %s", strings.Join(hard, "\n  "))
	}
	for c := range core {
		if p.Pkgs[c] == nil {
			return nil, fmt.Errorf("core package %s was not loaded", c)
		}
	}
	if len(pkgs) > 0 {
		p.Fset = pkgs[0].Fset
	}
	prog, _ := ssautil.AllPackages(pkgs, ssa.InstantiateGenerics)
	prog.Build()
	p.SSA = prog
	for path, pk := range p.Pkgs {
		if sp := prog.Package(pk.Types); sp != nil {
			p.SSAPkg[path] = sp
		}
	}
	all := ssautil.AllFunctions(prog)
	for f := range all {
		if f.Pkg != nil && isCanopyPath(f.Pkg.Pkg.Path()) && f.Synthetic == "" {
			p.Funcs = append(p.Funcs, f)
		} else if f.Pkg == nil && f.Origin() != nil && f.Origin().Pkg != nil && isCanopyPath(f.Origin().Pkg.Pkg.Path()) {
			// generic instantiation of a canopy function
			p.Funcs = append(p.Funcs, f)
		}
	}
	sort.Slice(p.Funcs, func(i, j int) bool {
		a, b := p.Funcs[i], p.Funcs[j]
		if a.String() != b.String() {
			return a.String() < b.String()
		}
		return a.Pos() < b.Pos()
	})
	chaG := cha.CallGraph(prog)
	if thorough {
		p.CG = vta.CallGraph(all, chaG)
		p.CGKind = "vta(cha)"
	} else {
		p.CG = vta.CallGraph(all, chaG)
		p.CGKind = "vta(cha)"
	}
	p.CG.DeleteSyntheticNodes()
	p.Stats["packages_loaded"] = len(p.All)
	p.Stats["canopy_packages"] = len(p.Pkgs)
	p.Stats["canopy_functions"] = len(p.Funcs)
	p.Stats["all_functions"] = len(all)
	p.Stats["callgraph_nodes"] = len(p.CG.Nodes)
	edges := 0
	for _, n := range p.CG.Nodes {
		edges += len(n.Out)
	}
	p.Stats["callgraph_edges"] = edges
	blocks, instrs := 0, 0
	for _, f := range p.Funcs {
		blocks += len(f.Blocks)
		for _, b := range f.Blocks {
			instrs += len(b.Instrs)
		}
	}
	p.Stats["ssa_blocks"] = blocks
	p.Stats["ssa_instructions"] = instrs
	p.LoadS = time.Since(t0).Seconds()
	return p, nil
}

// ---------------------------------------------------------------------------------------------
// lookups: anchors are resolved through the type checker, never matched as text

func (p *Prog) pkg(short string) *packages.Package { return p.Pkgs[modPath+"/"+short] }

// Named returns the named type `short.name` (short = "fsm", "lib/crypto", ...), nil if it does not exist.
func (p *Prog) Named(short, name string) *types.Named {
	pk := p.pkg(short)
	if pk == nil {
		return nil
	}
	o := pk.Types.Scope().Lookup(name)
	if o == nil {
		return nil
	}
	n, _ := o.Type().(*types.Named)
	return n
}

// Fn resolves "fsm.(*StateMachine).ApplyBlock", "lib.Marshal", "fsm.(StateMachine).X" to its SSA function.
func (p *Prog) Fn(spec string) *ssa.Function {
	if f := p.fnExact(spec); f != nil {
		return f
	}
	// the function may have been renamed since the reference tree (newfn.go)
	if p.Funcs != nil {
		short, recv, name, ptr := parseFnSpec(spec)
		old := short + "." + name
		if recv != "" {
			star := ""
			if ptr {
				star = "*"
			}
			old = "(" + star + short + "." + recv + ")." + name
		}
		if f := p.newFns().renamed[old]; f != nil {
			return f
		}
		if recv != "" && !ptr {
			if f := p.newFns().renamed["(*"+short+"."+recv+")."+name]; f != nil {
				return f
			}
		}
	}
	return nil
}

func (p *Prog) fnExact(spec string) *ssa.Function {
	short, recv, name, ptr := parseFnSpec(spec)
	pk := p.pkg(short)
	if pk == nil {
		return nil
	}
	sp := p.SSAPkg[pk.PkgPath]
	if sp == nil {
		return nil
	}
	if recv == "" {
		return sp.Func(name)
	}
	o := pk.Types.Scope().Lookup(recv)
	if o == nil {
		return nil
	}
	var t types.Type = o.Type()
	if ptr {
		t = types.NewPointer(t)
	}
	sel := p.SSA.MethodSets.MethodSet(t).Lookup(pk.Types, name)
	if sel == nil {
		// try the other receiver kind
		if !ptr {
			sel = p.SSA.MethodSets.MethodSet(types.NewPointer(o.Type())).Lookup(pk.Types, name)
		}
		if sel == nil {
			return nil
		}
	}
	return p.SSA.MethodValue(sel)
}

// parseFnSpec splits "lib/crypto.(*BatchVerifier).Verify" into its parts.
func parseFnSpec(spec string) (short, recv, name string, ptr bool) {
	i := strings.Index(spec, ".(")
	if i >= 0 {
		short = spec[:i]
		rest := spec[i+2:]
		j := strings.Index(rest, ").")
		recv = rest[:j]
		name = rest[j+2:]
		if strings.HasPrefix(recv, "*") {
			ptr = true
			recv = recv[1:]
		}
		return
	}
	i = strings.LastIndex(spec, ".")
	return spec[:i], "", spec[i+1:], false
}

// Field resolves a struct field "fsm.StateMachine.cache" to its *types.Var.
func (p *Prog) Field(short, typ, field string) *types.Var {
	n := p.Named(short, typ)
	if n == nil {
		return nil
	}
	st, ok := n.Underlying().(*types.Struct)
	if !ok {
		return nil
	}
	for i := 0; i < st.NumFields(); i++ {
		if st.Field(i).Name() == field {
			return st.Field(i)
		}
	}
	return nil
}

// IfaceMethod resolves an interface method object "lib.StoreI.Commit" (searching embedded interfaces).
func (p *Prog) IfaceMethod(short, iface, name string) *types.Func {
	n := p.Named(short, iface)
	if n == nil {
		return nil
	}
	it, ok := n.Underlying().(*types.Interface)
	if !ok {
		return nil
	}
	for i := 0; i < it.NumMethods(); i++ {
		if it.Method(i).Name() == name {
			return it.Method(i)
		}
	}
	return nil
}

func (p *Prog) Pos(pos token.Pos) string {
	if !pos.IsValid() {
		return "?"
	}
	ps := p.Fset.Position(pos)
	f := strings.TrimPrefix(ps.Filename, p.RepoDir+"/")
	return fmt.Sprintf("%s:%d", f, ps.Line)
}

// FuncDecl returns the syntax of a source function.
func (p *Prog) FuncDecl(f *ssa.Function) *ast.FuncDecl {
	if f == nil {
		return nil
	}
	if d, ok := f.Syntax().(*ast.FuncDecl); ok {
		return d
	}
	return nil
}

// InfoFor returns the types.Info of the package a function belongs to.
func (p *Prog) InfoFor(f *ssa.Function) *types.Info {
	for f.Parent() != nil {
		f = f.Parent()
	}
	if f.Pkg == nil {
		if f.Origin() != nil {
			f = f.Origin()
		}
		if f.Pkg == nil {
			return nil
		}
	}
	if pk := p.Pkgs[f.Pkg.Pkg.Path()]; pk != nil {
		return pk.TypesInfo
	}
	return nil
}

// fnName is a stable, human readable name: fsm.(*StateMachine).ApplyBlock or fsm.(*StateMachine).ApplyBlock$1
func fnName(f *ssa.Function) string {
	s := fnNameRaw(f)
	// a function renamed since the reference tree keeps its reference name in keys, tables and reports (newfn.go), so a
	// rename changes neither obligation keys nor the reasoned tables that name functions
	if theProg != nil && theProg.nf != nil && len(theProg.nf.oldName) > 0 && f != nil {
		top := rawEnclosing(origin(f))
		if old, ok := theProg.nf.oldName[top]; ok {
			cur := fnNameRaw(top)
			if strings.HasPrefix(s, cur) {
				return old + s[len(cur):]
			}
		}
	}
	return s
}

func fnNameRaw(f *ssa.Function) string {
	if f == nil {
		return "<nil>"
	}
	s := f.String()
	s = strings.ReplaceAll(s, modPath+"/", "")
	return s
}

// short position-free id of a canopy function, used in obligation keys
func fnKey(f *ssa.Function) string { return fnName(f) }
