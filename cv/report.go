package main

import (
	"bufio"
	"encoding/json"
	"fmt"
	"os"
	"path/filepath"
	"sort"
	"strings"
)

// Verdicts of an obligation.
const (
	Discharged = "discharged"
	Violated   = "violated"
	Undecided  = "undecided" // treated as violated: an analyser that cannot decide must not pass
)

// Obl is one proof obligation: a rule applied to one construct of the code.
type Obl struct {
	Prop    string `json:"property"`
	Rule    string `json:"rule"`
	Key     string `json:"key"` // rule + construct, never a line number
	Pos     string `json:"pos"` // file:line, for humans only
	Verdict string `json:"verdict"`
	Detail  string `json:"detail,omitempty"`
	Known   bool   `json:"known_finding,omitempty"`
}

// RuleInfo documents a rule for the evidence file.
type RuleInfo struct {
	ID     string `json:"id"`
	Engine string `json:"engine"`
	Text   string `json:"text"`
	Floor  int    `json:"floor"`
	Count  int    `json:"instances"`
}

// Rep collects the obligations of one property.
type Rep struct {
	Prop       string
	Obls       []*Obl
	Rules      []*RuleInfo
	cur        *RuleInfo
	NotCovered []string
	Trusted    []string
	Explain    string
	Analysed   map[string]int
	keys       map[string]bool
}

func NewRep(prop string) *Rep {
	return &Rep{Prop: prop, Analysed: map[string]int{}, keys: map[string]bool{}}
}

// Rule opens a rule; subsequent obligations are counted against its floor.
// Rule opens a rule. `confirmed` is the number of instances confirmed by reading the reference tree; the floor below which
// the rule fails as vacuous is half of it (rounded up) for counts above two: a floor guards against a rule that silently
// stopped matching, it must not fire because a refactoring legitimately removed one instance.
func (r *Rep) Rule(id, engine, text string, confirmed int) {
	floor := confirmed
	if confirmed > 2 {
		floor = (confirmed + 1) / 2
	}
	r.cur = &RuleInfo{ID: r.Prop + "." + id, Engine: engine, Text: text, Floor: floor}
	r.Rules = append(r.Rules, r.cur)
}

func (r *Rep) add(construct, pos, verdict, detail string) *Obl {
	// helpers pass the short rule id as prefix of the construct; do not repeat it in the key
	if i := strings.Index(r.cur.ID, "."); i >= 0 {
		construct = strings.TrimPrefix(construct, r.cur.ID[i+1:]+"/")
	}
	key := r.cur.ID + "/" + construct
	// keys must be unique; disambiguate repeated constructs deterministically
	base, n := key, 1
	for r.keys[key] {
		n++
		key = fmt.Sprintf("%s#%d", base, n)
	}
	r.keys[key] = true
	o := &Obl{Prop: r.Prop, Rule: r.cur.ID, Key: key, Pos: pos, Verdict: verdict, Detail: detail}
	r.Obls = append(r.Obls, o)
	r.cur.Count++
	return o
}

func (r *Rep) OK(construct, pos, detail string) { r.add(construct, pos, Discharged, detail) }
func (r *Rep) Bad(construct, pos, detail string) {
	r.add(construct, pos, Violated, detail)
}
func (r *Rep) Unk(construct, pos, detail string) {
	r.add(construct, pos, Undecided, detail)
}

// Check adds a discharged or violated obligation depending on cond.
func (r *Rep) Check(cond bool, construct, pos, okDetail, badDetail string) bool {
	if cond {
		r.OK(construct, pos, okDetail)
	} else {
		r.Bad(construct, pos, badDetail)
	}
	return cond
}

// Anchor reports an unresolved anchor (renamed/removed function, field, type) as undecided.
func (r *Rep) Anchor(ok bool, what string) bool {
	if !ok {
		r.Unk("anchor/"+what, "?", "unresolved-anchor: "+what+" does not exist in the current tree; the rule cannot be decided")
	}
	return ok
}

// finish closes floors: a rule that matched fewer instances than confirmed by hand is vacuous.
func (r *Rep) finish() {
	for _, ri := range r.Rules {
		if ri.Count < ri.Floor {
			r.cur = ri
			r.add("floor", "?", Undecided, fmt.Sprintf("vacuous: rule matched %d instances, the floor (half of what was confirmed by reading) is %d", ri.Count, ri.Floor))
		}
	}
}

// ---------------------------------------------------------------------------------------------
// known findings

type Known struct {
	Prop string
	Key  string // obligation key
	Text string
}

func loadKnown(path string) ([]Known, []string, error) {
	f, err := os.Open(path)
	if err != nil {
		if os.IsNotExist(err) {
			return nil, nil, nil
		}
		return nil, nil, err
	}
	defer f.Close()
	var ks []Known
	var fixed []string
	sc := bufio.NewScanner(f)
	for sc.Scan() {
		line := strings.TrimSpace(sc.Text())
		if line == "" || strings.HasPrefix(line, "#") {
			continue
		}
		if strings.HasPrefix(line, "fixed:") {
			fixed = append(fixed, line)
			continue
		}
		if !strings.HasPrefix(line, "finding:") {
			continue
		}
		k := Known{Text: strings.TrimSpace(strings.TrimPrefix(line, "finding:"))}
		for _, fld := range strings.Fields(k.Text) {
			if strings.HasPrefix(fld, "property=") {
				k.Prop = strings.TrimPrefix(fld, "property=")
			}
			if strings.HasPrefix(fld, "key=") {
				k.Key = strings.TrimPrefix(fld, "key=")
			}
		}
		if k.Prop != "" && k.Key != "" {
			ks = append(ks, k)
		}
	}
	return ks, fixed, sc.Err()
}

// ---------------------------------------------------------------------------------------------
// evidence

type evidence struct {
	PropertyID string         `json:"property_id"`
	Tier       string         `json:"tier"`
	Seed       int            `json:"seed"`
	Level      string         `json:"level"`
	Coverage   map[string]any `json:"coverage"`
	Assumed    []string       `json:"assumptions"`
	WallS      float64        `json:"wall_s"`
	Violations int            `json:"violations"`
}

// Emit prints the contract lines, writes evidence and replay files, and returns the exit code.
func (r *Rep) Emit(p *Prog, outDir, tier string, seed int, known []Known, fixed []string, wall float64, extra map[string]any) int {
	r.finish()
	sort.SliceStable(r.Obls, func(i, j int) bool { return r.Obls[i].Key < r.Obls[j].Key })
	viol := 0
	disch := 0
	var knownLines []string
	replayDir := filepath.Join(outDir, "replay")
	os.MkdirAll(replayDir, 0o755)
	// remove stale replay files of this property
	if old, _ := filepath.Glob(filepath.Join(replayDir, r.Prop+"-*.json")); len(old) > 0 {
		for _, f := range old {
			os.Remove(f)
		}
	}
	for _, o := range r.Obls {
		if o.Verdict == Discharged {
			disch++
			continue
		}
		matched := false
		if o.Verdict == Violated {
			for _, k := range known {
				if k.Prop == r.Prop && k.Key == o.Key {
					matched = true
					o.Known = true
					line := fmt.Sprintf("KNOWN-FINDING: property=%s %s [%s at %s]", r.Prop, strings.TrimSpace(strings.Replace(k.Text, "property="+r.Prop, "", 1)), o.Detail, o.Pos)
					knownLines = append(knownLines, line)
					fmt.Println(line)
				}
			}
		}
		if matched {
			continue
		}
		viol++
		rp := filepath.Join(replayDir, fmt.Sprintf("%s-%d.json", r.Prop, viol))
		b, _ := json.MarshalIndent(map[string]any{
			"property": r.Prop, "rule": o.Rule, "obligation": o.Key, "position": o.Pos, "verdict": o.Verdict,
			"witness": o.Detail, "rerun": fmt.Sprintf("./check %s %s", r.Prop, tier),
		}, "", " ")
		os.WriteFile(rp, b, 0o644)
		fmt.Printf("VIOLATION property=%s replay=%s\n", r.Prop, rp)
		fmt.Printf("  rule=%s obligation=%s at %s: %s: %s\n", o.Rule, o.Key, o.Pos, o.Verdict, o.Detail)
	}
	// evidence
	var samples []any
	// a sample per rule first, then all non-discharged
	seenRule := map[string]int{}
	for _, o := range r.Obls {
		if o.Verdict != Discharged || seenRule[o.Rule] < 2 {
			samples = append(samples, o)
			seenRule[o.Rule]++
		}
	}
	distinct := map[string]bool{}
	for _, o := range r.Obls {
		distinct[o.Rule+"@"+o.Pos+"@"+o.Key] = true
	}
	var ruleTexts []string
	for _, ri := range r.Rules {
		ruleTexts = append(ruleTexts, fmt.Sprintf("%s [%s] %s (instances %d, floor %d)", ri.ID, ri.Engine, ri.Text, ri.Count, ri.Floor))
	}
	analysed := map[string]int{}
	if p != nil {
		for k, v := range p.Stats {
			analysed[k] = v
		}
	}
	for k, v := range r.Analysed {
		analysed[k] = v
	}
	cov := map[string]any{
		"explanation":         r.Explain,
		"obligations":         len(r.Obls),
		"discharged":          disch,
		"evaluations":         len(r.Obls),
		"distinct_nontrivial": len(distinct),
		"rule":                "one obligation per (rule, construct) the rule matches in the type-checked SSA/AST/call graph of /repo's working tree; distinct = distinct (rule, position, key); an obligation is non-trivial because it names a concrete call site / path / field of the code",
		"rules":               r.Rules,
		"rule_texts":          ruleTexts,
		"samples":             samples,
		"all_obligations":     r.Obls,
		"analysed":            analysed,
		"not_covered":         r.NotCovered,
		"trusted_base":        r.Trusted,
		"known_findings":      knownLines,
		"fixed_findings":      filterProp(fixed, r.Prop),
		"checker_cmd":         fmt.Sprintf("./check %s %s", r.Prop, tier),
		"exhaustive":          true,
	}
	if p != nil {
		cov["callgraph"] = p.CGKind
		cov["tolerated_load_errors"] = p.Tolerated
	}
	for k, v := range extra {
		cov[k] = v
	}
	ev := evidence{PropertyID: r.Prop, Tier: tier, Seed: seed, Level: "other", Coverage: cov, WallS: wall, Violations: viol,
		Assumed: []string{
			"go/types, go/ssa and the VTA call graph of golang.org/x/tools v0.29.0 represent the program faithfully",
			"the rules decide structural necessary conditions of the property, not the behaviour; see coverage.not_covered",
		}}
	ev.Assumed = append(ev.Assumed, r.Trusted...)
	os.MkdirAll(outDir, 0o755)
	b, _ := json.MarshalIndent(ev, "", " ")
	if err := os.WriteFile(filepath.Join(outDir, r.Prop+".json"), b, 0o644); err != nil {
		fmt.Fprintln(os.Stderr, "cannot write evidence:", err)
		return 2
	}
	fmt.Printf("%s %s: %d obligations, %d discharged, %d known findings, %d violations (%d rules)\n", r.Prop, tier, len(r.Obls), disch, len(knownLines), viol, len(r.Rules))
	if viol > 0 {
		return 1
	}
	return 0
}

func filterProp(lines []string, prop string) []string {
	var out []string
	for _, l := range lines {
		if strings.Contains(l, "property="+prop+" ") || strings.HasSuffix(l, "property="+prop) {
			out = append(out, l)
		}
	}
	return out
}
