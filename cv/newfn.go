package main

import (
	_ "embed"
	"fmt"
	"hash/fnv"
	"sort"
	"strings"

	"golang.org/x/tools/go/ssa"
)

// "Extract helper" refactorings must not change a verdict. A named canopy function that did not exist on the reference
// tree (reference_funcs.txt, regenerated with `cv -dumpfuncs` whenever /repo's pinned tree is re-read) and that has exactly
// one static call site is TRANSPARENT: its body is treated as part of its caller —
//   - who-may-call / who-may-write attribute its call sites and stores to the caller (enclosing),
//   - provenance paths render its parameters as the caller's arguments (flow.go),
//   - callsIn / storesTo / instrBefore look through it,
//   - the path engine analyses it in place in its second pass (rules.go autoInline).
// On the reference tree no function is new, so nothing changes there. The list is only used to tell "new" from "known";
// it never decides a property.

//go:embed reference_funcs.txt
var referenceFuncs string

var theProg *Prog

type newFnInfo struct {
	any     int // 0 unknown, 1 some function is transparent, 2 none
	ref     map[string]bool
	renamed map[string]*ssa.Function              // reference name -> the function that carries another name today
	oldName map[*ssa.Function]string              // the reverse
	tsite   map[*ssa.Function]ssa.CallInstruction // memo of transparentSite
	sites   map[*ssa.Function][]ssa.CallInstruction
	escaped map[*ssa.Function]bool
}

func (p *Prog) newFns() *newFnInfo {
	if p.nf != nil {
		return p.nf
	}
	nf := &newFnInfo{ref: map[string]bool{}, sites: map[*ssa.Function][]ssa.CallInstruction{}, escaped: map[*ssa.Function]bool{}}
	refSig, refPrint := map[string]string{}, map[string]string{}
	for _, l := range strings.Split(referenceFuncs, "\n") {
		if l = strings.TrimSpace(l); l != "" && !strings.HasPrefix(l, "#") {
			name, rest, _ := strings.Cut(l, "\t")
			sig, fp, _ := strings.Cut(rest, "\t")
			nf.ref[name] = true
			refSig[name] = sig
			refPrint[name] = fp
		}
	}
	// renames: a reference function that is gone and a new function with the same package, receiver and signature, one
	// of each, are the same function under a new name (anchors and allow-tables keep working: Prog.Fn resolves the old name)
	nf.renamed = map[string]*ssa.Function{}
	nf.oldName = map[*ssa.Function]string{}
	if len(nf.ref) > 0 {
		present := map[string]bool{}
		added := map[string][]*ssa.Function{}
		for _, f := range p.Funcs {
			if f.Parent() != nil || f.Synthetic != "" || isTestFile(p, f.Pos()) {
				continue
			}
			n := fnNameRaw(origin(f))
			present[n] = true
			if !nf.ref[n] {
				added[sigKey(f)] = append(added[sigKey(f)], origin(f))
			}
		}
		gone := map[string][]string{}
		for n, sig := range refSig {
			if !present[n] && sig != "" {
				gone[sig] = append(gone[sig], n)
			}
		}
		for sig, olds := range gone {
			news := added[sig]
			if len(olds) == 1 && len(news) == 1 {
				nf.renamed[olds[0]] = news[0]
				nf.oldName[news[0]] = olds[0]
				nf.ref[fnNameRaw(news[0])] = true // a renamed function is a known function, not a new helper
				continue
			}
			// several siblings of one signature renamed together: pair them by the shape of their bodies
			for _, o := range olds {
				var match []*ssa.Function
				for _, n := range news {
					if refPrint[o] != "" && bodyPrint(n) == refPrint[o] {
						match = append(match, n)
					}
				}
				if len(match) == 1 {
					nf.renamed[o] = match[0]
					nf.oldName[match[0]] = o
					nf.ref[fnNameRaw(match[0])] = true
				}
			}
		}
	}
	for _, f := range p.Funcs {
		if isTestFile(p, f.Pos()) {
			continue
		}
		for _, b := range f.Blocks {
			for _, in := range b.Instrs {
				var calleeVal ssa.Value
				if ci, ok := in.(ssa.CallInstruction); ok {
					calleeVal = ci.Common().Value
					if sc := ci.Common().StaticCallee(); sc != nil && !ci.Common().IsInvoke() {
						if _, isGo := in.(*ssa.Go); !isGo {
							if _, isDefer := in.(*ssa.Defer); !isDefer {
								nf.sites[origin(sc)] = append(nf.sites[origin(sc)], ci)
							} else {
								nf.escaped[origin(sc)] = true
							}
						} else {
							nf.escaped[origin(sc)] = true
						}
					}
				}
				for _, op := range in.Operands(nil) {
					if op == nil || *op == nil {
						continue
					}
					if fn, ok := (*op).(*ssa.Function); ok && *op != calleeVal {
						nf.escaped[origin(fn)] = true // used as a value (method value, callback)
					}
				}
			}
		}
	}
	p.nf = nf
	return nf
}

// anyTransparent: is there any transparent helper in this tree (false on the reference tree: fast path everywhere)
func (p *Prog) anyTransparent() bool {
	nf := p.newFns()
	if nf.any == 0 {
		nf.any = 2
		for f := range nf.sites {
			if p.transparentSite(f) != nil {
				nf.any = 1
				break
			}
		}
	}
	return nf.any == 1
}

// transparentSite returns the single call site of a new helper, or nil if f is not transparent.
func (p *Prog) transparentSite(f *ssa.Function) ssa.CallInstruction {
	if p == nil || f == nil {
		return nil
	}
	f = origin(f)
	if p.nf != nil {
		if cs, ok := p.nf.tsite[f]; ok {
			return cs
		}
	}
	cs := p.transparentSite1(f)
	nf := p.newFns()
	if nf.tsite == nil {
		nf.tsite = map[*ssa.Function]ssa.CallInstruction{}
	}
	nf.tsite[f] = cs
	return cs
}

func (p *Prog) transparentSite1(f *ssa.Function) ssa.CallInstruction {
	if f.Parent() != nil || f.Synthetic != "" || len(f.Blocks) == 0 || !inCanopyRaw(f) {
		return nil
	}
	nf := p.newFns()
	if len(nf.ref) == 0 || nf.ref[fnNameRaw(f)] || nf.escaped[f] {
		return nil
	}
	if s := nf.sites[f]; len(s) == 1 && rawEnclosing(s[0].Parent()) != f {
		return s[0]
	}
	return nil
}

// isNewNamed: a named canopy function that did not exist on the reference tree (whatever its number of call sites) and is
// never used as a value.
func (p *Prog) isNewNamed(f *ssa.Function) bool {
	if p == nil || f == nil {
		return false
	}
	f = origin(f)
	if f.Parent() != nil || f.Synthetic != "" || len(f.Blocks) == 0 || !inCanopyRaw(f) {
		return false
	}
	nf := p.newFns()
	return len(nf.ref) > 0 && !nf.ref[fnNameRaw(f)] && !nf.escaped[f] && len(nf.sites[f]) > 0
}

// newHelperOfAllowed: f is a new helper (shared by several callers, so not folded into one) all of whose static callers are
// in the allow-table, directly or through further new helpers. Returns the callers' names, "" if not.
func (p *Prog) newHelperOfAllowed(f *ssa.Function, allowed allow, depth int) string {
	if depth > 3 || !p.isNewNamed(f) {
		return ""
	}
	var names []string
	for _, site := range p.newFns().sites[origin(f)] {
		caller := enclosing(origin(site.Parent()))
		if _, ok := allowed[caller]; ok {
			names = append(names, fnNameRaw(caller))
			continue
		}
		if via := p.newHelperOfAllowed(caller, allowed, depth+1); via != "" {
			names = append(names, via)
			continue
		}
		return ""
	}
	sort.Strings(names)
	return strings.Join(names, ", ")
}

// Context-sensitive paths: while the path engine analyses a helper in place, its parameters are bound to the arguments of
// THAT call, and provenance paths computed by rule callbacks (event names, atoms) render them so. The bindings form a
// stack that follows the engine's (synchronous) in-place analysis.
func (p *Prog) pushBindings(callee *ssa.Function, args []ssa.Value) {
	if p.bound == nil {
		p.bound = map[*ssa.Parameter][]ssa.Value{}
	}
	for i, pa := range callee.Params {
		if i < len(args) {
			p.bound[pa] = append(p.bound[pa], args[i])
		}
	}
}

func (p *Prog) popBindings(callee *ssa.Function, args []ssa.Value) {
	for i, pa := range callee.Params {
		if i < len(args) {
			if st := p.bound[pa]; len(st) > 0 {
				p.bound[pa] = st[:len(st)-1]
			}
		}
	}
}

func (p *Prog) boundArg(pa *ssa.Parameter) ssa.Value {
	if st := p.bound[pa]; len(st) > 0 {
		return st[len(st)-1]
	}
	return nil
}

// deepCall is a call found in f or, through a chain of calls to helpers that did not exist on the reference tree, below it.
type deepCall struct {
	CS    ssa.CallInstruction
	Chain []ssa.CallInstruction // the calls from f down to the helper that contains CS (empty: CS is in f itself)
}

// callsInDeep is callsIn that also looks into new helpers shared by several callers (transparent single-site helpers are
// already part of callsIn); paths of values at such a call must be rendered with pathIn.
func (p *Prog) callsInDeep(f *ssa.Function, targets ...*ssa.Function) []deepCall {
	var out []deepCall
	var walk func(g *ssa.Function, chain []ssa.CallInstruction, depth int)
	walk = func(g *ssa.Function, chain []ssa.CallInstruction, depth int) {
		for _, cs := range callsIn(g, false, targets...) {
			out = append(out, deepCall{cs, append([]ssa.CallInstruction(nil), chain...)})
		}
		if depth >= 2 {
			return
		}
		for _, cs := range allCalls(g) {
			call, ok := cs.(*ssa.Call)
			if !ok {
				continue
			}
			sc := call.Common().StaticCallee()
			if sc == nil || call.Common().IsInvoke() || p.transparentSite(sc) != nil || !p.isNewNamed(sc) {
				continue
			}
			walk(origin(sc), append(chain, cs), depth+1)
		}
	}
	walk(f, nil, 0)
	return out
}

// pathIn renders v as seen from the top of the chain: the parameters of each helper on the chain are bound to the
// arguments of the call that entered it.
func (p *Prog) pathIn(chain []ssa.CallInstruction, v ssa.Value) string {
	for _, cs := range chain {
		if sc := cs.Common().StaticCallee(); sc != nil {
			p.pushBindings(origin(sc), cs.Common().Args)
		}
	}
	s := p.path(v)
	for i := len(chain) - 1; i >= 0; i-- {
		if sc := chain[i].Common().StaticCallee(); sc != nil {
			p.popBindings(origin(sc), chain[i].Common().Args)
		}
	}
	return s
}

// callsThroughNew: f calls target directly or through helpers that did not exist on the reference tree (wrappers).
func (p *Prog) callsThroughNew(f *ssa.Function, target *ssa.Function, depth int) bool {
	if len(callsIn(f, false, target)) > 0 {
		return true
	}
	if depth >= 2 {
		return false
	}
	for _, cs := range allCalls(f) {
		if sc := cs.Common().StaticCallee(); sc != nil && !cs.Common().IsInvoke() && p.isNewNamed(sc) && p.callsThroughNew(origin(sc), target, depth+1) {
			return true
		}
	}
	return false
}

// bodyFuncs: f (with its function literals if nested) plus the transparent helpers called from them, transitively.
func bodyFuncs(f *ssa.Function, nested bool) []*ssa.Function {
	var out []*ssa.Function
	seen := map[*ssa.Function]bool{}
	var add func(g *ssa.Function, depth int)
	add = func(g *ssa.Function, depth int) {
		if seen[g] || depth > 3 {
			return
		}
		seen[g] = true
		out = append(out, g)
		if nested {
			for _, a := range g.AnonFuncs {
				add(a, depth)
			}
		}
		if theProg == nil {
			return
		}
		for _, b := range g.Blocks {
			for _, in := range b.Instrs {
				if call, ok := in.(*ssa.Call); ok {
					if sc := call.Common().StaticCallee(); sc != nil {
						if site := theProg.transparentSite(sc); site != nil && site == ssa.CallInstruction(call) {
							add(origin(sc), depth+1)
						}
					}
				}
			}
		}
	}
	add(f, 0)
	return out
}

// liftInstr maps an instruction inside a transparent helper to the call instruction that stands for it in the caller
// (repeatedly), so that dominance questions can be asked in one function.
func liftInstr(in ssa.Instruction) ssa.Instruction {
	for i := 0; i < 4 && in != nil && theProg != nil; i++ {
		site := theProg.transparentSite(in.Parent())
		if site == nil {
			break
		}
		in = site.(ssa.Instruction)
	}
	return in
}

// liftValue maps a parameter of a transparent helper to the argument passed at its single call site (repeatedly).
func liftValue(v ssa.Value) ssa.Value {
	for i := 0; i < 4 && theProg != nil; i++ {
		pa, ok := v.(*ssa.Parameter)
		if !ok {
			break
		}
		site := theProg.transparentSite(pa.Parent())
		if site == nil {
			break
		}
		idx := paramIndex(pa)
		if idx < 0 || idx >= len(site.Common().Args) {
			break
		}
		v = site.Common().Args[idx]
	}
	return v
}

// forwardsTransparent: v is (a component of) the result of a call to a transparent helper — a tail call `return helper(...)`;
// the helper's own returns are visited by instrs, so the forwarding return carries no information of its own.
func forwardsTransparent(v ssa.Value) bool {
	if ex, ok := v.(*ssa.Extract); ok {
		v = ex.Tuple
	}
	call, ok := v.(*ssa.Call)
	if !ok || theProg == nil {
		return false
	}
	sc := call.Common().StaticCallee()
	return sc != nil && theProg.transparentSite(sc) != nil
}

// stripLift removes interface conversions / assertions and looks through transparent-helper parameters until neither applies.
func stripLift(v ssa.Value) ssa.Value {
	for i := 0; i < 8; i++ {
		w := stripAssert(liftValue(v))
		if w == v {
			break
		}
		v = w
	}
	return v
}

func rawEnclosing(f *ssa.Function) *ssa.Function {
	for f != nil && f.Parent() != nil {
		f = f.Parent()
	}
	return f
}

// sigKey: package, receiver type and signature of a function (what a pure rename leaves unchanged).
func sigKey(f *ssa.Function) string {
	f = origin(f)
	pk := ""
	if f.Pkg != nil {
		pk = f.Pkg.Pkg.Path()
	}
	// parameter and result TYPES only (renaming a parameter is not a change of signature), the receiver counted as the
	// first parameter (turning a method into a function of its receiver, or back, is not one either)
	var ps, rs []string
	if r := f.Signature.Recv(); r != nil {
		ps = append(ps, r.Type().String())
	}
	for i := 0; i < f.Signature.Params().Len(); i++ {
		ps = append(ps, f.Signature.Params().At(i).Type().String())
	}
	for i := 0; i < f.Signature.Results().Len(); i++ {
		rs = append(rs, f.Signature.Results().At(i).Type().String())
	}
	v := ""
	if f.Signature.Variadic() {
		v = "..."
	}
	return pk + "|(" + strings.Join(ps, ",") + v + ")(" + strings.Join(rs, ",") + ")"
}

// attribNames: the reference functions whose code f is part of. A function known on the reference tree is itself; a new
// helper is its callers' (transitively): one caller for a transparent helper, all of them for a shared one.
func (p *Prog) attribNames(f *ssa.Function) []string {
	seen := map[*ssa.Function]bool{}
	set := map[string]bool{}
	var walk func(g *ssa.Function, depth int)
	walk = func(g *ssa.Function, depth int) {
		g = enclosing(origin(g))
		if g == nil || seen[g] {
			return
		}
		seen[g] = true
		if depth < 4 && p.isNewNamed(g) {
			for _, site := range p.newFns().sites[origin(g)] {
				walk(site.Parent(), depth+1)
			}
			return
		}
		set[fnName(g)] = true
	}
	walk(f, 0)
	var out []string
	for n := range set {
		out = append(out, n)
	}
	sort.Strings(out)
	return out
}

// bodyPrint: a fingerprint of what a function does that ignores names of locals, positions and constants: the sequence
// of instruction kinds with operators, field names and (for calls into other packages or methods) callee names.
func bodyPrint(f *ssa.Function) string {
	h := fnv.New64a()
	for _, a := range f.AnonFuncs {
		fmt.Fprint(h, bodyPrint(a)) // function literals are part of the body
	}
	for _, b := range f.Blocks {
		for _, in := range b.Instrs {
			fmt.Fprintf(h, "%T", in)
			switch x := in.(type) {
			case *ssa.BinOp:
				fmt.Fprint(h, x.Op)
			case *ssa.UnOp:
				fmt.Fprint(h, x.Op)
			case *ssa.FieldAddr, *ssa.Field:
				if fv := fieldOfAddr(x.(ssa.Value)); fv != nil {
					fmt.Fprint(h, fv.Name())
				}
			}
			if cc := callCommon(in); cc != nil {
				if cc.IsInvoke() {
					fmt.Fprint(h, cc.Method.Name())
				} else if sc := cc.StaticCallee(); sc != nil && !inCanopyRaw(sc) {
					fmt.Fprint(h, sc.String())
				} else if bi, ok := cc.Value.(*ssa.Builtin); ok {
					fmt.Fprint(h, bi.Name())
				}
			}
		}
		fmt.Fprint(h, "|")
	}
	return fmt.Sprintf("%016x", h.Sum64())
}

// dumpFuncs lists the named non-test canopy functions (the reference list).
func (p *Prog) dumpFuncs() []string {
	var out []string
	for _, f := range p.Funcs {
		if f.Parent() == nil && f.Synthetic == "" && !isTestFile(p, f.Pos()) {
			out = append(out, fnNameRaw(origin(f))+"\t"+sigKey(f)+"\t"+bodyPrint(f))
		}
	}
	sort.Strings(out)
	var uniq []string
	for i, s := range out {
		if i == 0 || s != out[i-1] {
			uniq = append(uniq, s)
		}
	}
	return uniq
}
