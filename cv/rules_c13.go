package main

import (
	"fmt"
	"go/token"
	"go/types"
	"sort"
	"strings"

	"golang.org/x/tools/go/ssa"
)

func init() { register("C13", c13) }

// ALIAS engine: borrowed shared storage must not be mutated.
type taintKind uint8

const (
	sharedSlice taintKind = 1 << iota // the slice's backing array is shared
	sharedElems                       // a (fresh) slice whose elements are pointers into shared storage
	sharedElem                        // a pointer to a shared record
)

type aliasFinding struct {
	pos  token.Pos
	what string
}

// mutatesParam: function stores through a field of (a value derived from) parameter i.
func mutatesParam(f *ssa.Function, i int, depth int, seen map[*ssa.Function]bool) bool {
	if f == nil || len(f.Blocks) == 0 || i >= len(f.Params) || depth > 3 || seen[f] {
		return false
	}
	seen[f] = true
	derived := map[ssa.Value]bool{f.Params[i]: true}
	changed := true
	for changed {
		changed = false
		instrs(f, func(in ssa.Instruction) {
			v, ok := in.(ssa.Value)
			if !ok || derived[v] {
				return
			}
			switch x := in.(type) {
			case *ssa.FieldAddr:
				if derived[x.X] {
					derived[v] = true
					changed = true
				}
			case *ssa.Phi:
				for _, e := range x.Edges {
					if derived[e] {
						derived[v] = true
						changed = true
					}
				}
			}
		})
	}
	mut := false
	instrs(f, func(in ssa.Instruction) {
		switch x := in.(type) {
		case *ssa.Store:
			if fa, ok := x.Addr.(*ssa.FieldAddr); ok && derived[fa.X] {
				mut = true
			}
		case ssa.CallInstruction:
			cc := x.Common()
			callee := cc.StaticCallee()
			if callee == nil {
				return
			}
			for ai, a := range cc.Args {
				if derived[a] && mutatesParam(callee, ai, depth+1, seen) {
					mut = true
				}
			}
		}
	})
	return mut
}

// aliasScan taints values derived from the lenders inside f (and its closures) and reports mutations.
func aliasScan(p *Prog, f *ssa.Function, isSource func(v ssa.Value) bool) (findings []aliasFinding, nSources int) {
	taint := map[ssa.Value]taintKind{}
	funcs := withAnons(f)
	add := func(v ssa.Value, k taintKind) bool {
		if v == nil || taint[v]&k == k {
			return false
		}
		taint[v] |= k
		return true
	}
	for _, g := range funcs {
		instrs(g, func(in ssa.Instruction) {
			if v, ok := in.(ssa.Value); ok && isSource(v) {
				nSources++
				add(v, sharedSlice|sharedElems)
			}
		})
	}
	changed := true
	for iter := 0; changed && iter < 50; iter++ {
		changed = false
		for _, g := range funcs {
			// free variables inherit from their bindings
			if g.Parent() != nil {
				instrs(g.Parent(), func(in ssa.Instruction) {
					if mc, ok := in.(*ssa.MakeClosure); ok && mc.Fn == g {
						for i, b := range mc.Bindings {
							if k := taint[b]; k != 0 && i < len(g.FreeVars) {
								if add(g.FreeVars[i], k) {
									changed = true
								}
							}
						}
					}
				})
			}
			instrs(g, func(in ssa.Instruction) {
				v, ok := in.(ssa.Value)
				if !ok {
					return
				}
				switch x := in.(type) {
				case *ssa.Extract:
					if k := taint[x.Tuple]; k != 0 {
						// range iteration: element #2 of Next over a slice with shared elements is a shared element
						if _, isNext := x.Tuple.(*ssa.Next); isNext {
							if x.Index == 2 && k&sharedElems != 0 {
								changed = add(v, sharedElem) || changed
							}
						} else {
							changed = add(v, k) || changed
						}
					}
				case *ssa.Phi:
					for _, e := range x.Edges {
						if k := taint[e]; k != 0 {
							changed = add(v, k) || changed
						}
					}
				case *ssa.Slice:
					if k := taint[x.X]; k != 0 {
						changed = add(v, k) || changed
					}
				case *ssa.Range:
					if k := taint[x.X]; k != 0 {
						changed = add(v, k) || changed
					}
				case *ssa.Next:
					if k := taint[x.Iter]; k != 0 {
						changed = add(v, k) || changed
					}
				case *ssa.IndexAddr:
					if k := taint[x.X]; k&(sharedSlice|sharedElems) != 0 {
						changed = add(v, k&(sharedSlice|sharedElems)) || changed // address of a slot
					}
				case *ssa.UnOp:
					if x.Op == token.MUL {
						// load of a slot of a slice with shared elements gives a shared element pointer;
						// load of a cell (alloc / free var) holding a tainted value propagates it
						if ia, ok := x.X.(*ssa.IndexAddr); ok && taint[ia.X]&sharedElems != 0 {
							changed = add(v, sharedElem) || changed
						} else if k := taint[x.X]; k != 0 {
							changed = add(v, k) || changed
						}
					}
				case *ssa.FieldAddr:
					if taint[x.X]&sharedElem != 0 {
						changed = add(v, sharedElem) || changed // address inside a shared record
					}
				case *ssa.MakeInterface:
					if k := taint[x.X]; k != 0 {
						changed = add(v, k) || changed
					}
				case *ssa.ChangeType:
					if k := taint[x.X]; k != 0 {
						changed = add(v, k) || changed
					}
				case *ssa.Call:
					// a call that is handed a closure capturing shared elements (slices.Collect(func(yield){… yield(v) …}))
					// returns a fresh container of shared elements
					for _, a := range x.Common().Args {
						for {
							if ct, ok := a.(*ssa.ChangeType); ok {
								a = ct.X
								continue
							}
							if mi, ok := a.(*ssa.MakeInterface); ok {
								a = mi.X
								continue
							}
							break
						}
						if mc, ok := a.(*ssa.MakeClosure); ok {
							for _, b := range mc.Bindings {
								if taint[b] != 0 {
									changed = add(v, sharedElems) || changed
								}
							}
						}
					}
				}
				// stores into cells propagate
				if st, ok := in.(*ssa.Store); ok {
					_ = st
				}
			})
			instrs(g, func(in ssa.Instruction) {
				if st, ok := in.(*ssa.Store); ok {
					if k := taint[st.Val]; k != 0 {
						if _, isAlloc := st.Addr.(*ssa.Alloc); isAlloc {
							changed = add(st.Addr, k) || changed
						}
						if _, isFV := st.Addr.(*ssa.FreeVar); isFV {
							changed = add(st.Addr, k) || changed
						}
					}
				}
			})
		}
	}
	// violations
	for _, g := range funcs {
		instrs(g, func(in ssa.Instruction) {
			switch x := in.(type) {
			case *ssa.Store:
				switch a := x.Addr.(type) {
				case *ssa.FieldAddr:
					if taint[a.X]&sharedElem != 0 {
						findings = append(findings, aliasFinding{in.Pos(), "stores into field " + fieldOfAddr(a).Name() + " of a validator record borrowed from the shared list"})
					}
				case *ssa.IndexAddr:
					if taint[a.X]&sharedSlice != 0 {
						findings = append(findings, aliasFinding{in.Pos(), "overwrites a slot of the borrowed shared validator slice"})
					}
				}
			case ssa.CallInstruction:
				cc := x.Common()
				name := calleeName(cc)
				for ai, a := range cc.Args {
					k := taint[a]
					if k == 0 {
						continue
					}
					if k&sharedSlice != 0 {
						if b, ok := cc.Value.(*ssa.Builtin); ok && b.Name() == "append" && ai == 0 {
							findings = append(findings, aliasFinding{in.Pos(), "appends to the borrowed shared validator slice (may write into its backing array)"})
						}
						if strings.HasPrefix(name, "sort.") || strings.HasPrefix(name, "slices.Sort") || strings.HasPrefix(name, "slices.Reverse") || strings.HasPrefix(name, "slices.Delete") || strings.HasPrefix(name, "slices.Insert") || strings.HasPrefix(name, "slices.Compact") {
							findings = append(findings, aliasFinding{in.Pos(), "passes the borrowed shared validator slice to " + name + ", which reorders/edits it in place"})
						}
					}
					if k&sharedElem != 0 {
						if callee := cc.StaticCallee(); callee != nil && inCanopy(callee) && mutatesParam(callee, ai, 0, map[*ssa.Function]bool{}) {
							findings = append(findings, aliasFinding{in.Pos(), "passes a borrowed validator record to " + fnName(callee) + ", which mutates its argument"})
						}
					}
				}
			}
		})
	}
	return
}

// C13 — Committee derivation and voting power (three structural clauses).
func c13(c *ctx) {
	r := c.r
	r.Explain = "Three structural clauses: (R1) the validator list borrowed from the per-height shared cache is never mutated by a borrower (no store through a borrowed record, no in-place sort/append of the borrowed slice, no hand-off to a mutating callee); (R2) threshold and total power of a ValidatorSet have a single writer (NewValidatorSet) and are derived there from the members; " +
		"(R3) past committees are read from a read-only view at the requested height (C10.R3); (R5) no binary search over an unsorted list; (R4) the FSM's caches are filled only from the FSM's own store view: each cache field has a fixed set of writers, so a historical view can never inherit parameters or records of the live state."
	r.NotCovered = []string{"the sort order, the cap and the tie-break themselves (value-level)", "the value floor(2*total/3)+1 and its overflow (F7)", "staleness of the per-FSM validator list inside one block"}
	r.Trusted = []string{"slices.Collect returns a fresh slice"}

	getCurrent := c.fn("fsm.(*StateMachine).getCurrentValidators")
	liveF := c.field("fsm", "cache", "liveValidators")
	setsF := c.field("fsm", "validatorSharedCache", "sets")
	if getCurrent == nil || liveF == nil || setsF == nil {
		return
	}
	// ------------------------------------------------------------------ R1
	r.Rule("R1", "ALIAS", "borrowed list is read-only: values obtained from getCurrentValidators / cache.liveValidators / sharedCache.sets are not written through, sorted, appended to, or passed to a callee that mutates them", 1)
	isSource := func(v ssa.Value) bool {
		switch x := v.(type) {
		case *ssa.Call:
			return callIs(x.Common(), getCurrent)
		case *ssa.UnOp:
			if f, _ := loadedField(v); f == liveF {
				return true
			}
		case *ssa.Lookup:
			if f, _ := loadedField(x.X); f == setsF {
				return true
			}
		}
		if ex, ok := v.(*ssa.Extract); ok {
			if lk, ok := ex.Tuple.(*ssa.Lookup); ok && ex.Index == 0 {
				if f, _ := loadedField(lk.X); f == setsF {
					return true
				}
			}
		}
		return false
	}
	borrowers := 0
	for _, f := range c.p.Funcs {
		if pkgShort(f) != "fsm" || isTestFile(c.p, f.Pos()) || f.Parent() != nil {
			continue
		}
		findings, n := aliasScan(c.p, f, isSource)
		if n == 0 {
			continue
		}
		borrowers++
		if len(findings) == 0 {
			r.OK("R1/borrower/"+fnName(f), c.p.Pos(f.Pos()), fmt.Sprintf("%d borrow site(s), no mutation of borrowed storage", n))
		}
		for _, fd := range findings {
			r.Bad("R1/borrower/"+fnName(f), c.p.Pos(fd.pos), fnName(f)+" "+fd.what+": every FSM snapshot of that height (and every later query for it) would see the change")
		}
	}
	r.Analysed["alias_borrowers"] = borrowers

	// ------------------------------------------------------------------ R2
	r.Rule("R2", "WHO", "ValidatorSet.{TotalPower, MinimumMaj23, NumValidators, MultiKey} are written only where the set is built (NewValidatorSet) and derived there from the members' voting power", 4)
	newVS := c.fn("lib.NewValidatorSet")
	if newVS != nil {
		for _, fld := range []string{"TotalPower", "MinimumMaj23", "NumValidators", "MultiKey"} {
			if fv := c.field("lib", "ValidatorSet", fld); fv != nil {
				ws := c.whoWrites("R2", fv, "ValidatorSet."+fld, allow{newVS: "construction", c.fnQuiet("lib.(*ValidatorSet).UnmarshalJSON"): "JSON decoding"}, false)
				if len(ws) == 0 {
					r.Bad("R2/writers-of/ValidatorSet."+fld+"/none", c.p.Pos(newVS.Pos()), "no writer of ValidatorSet."+fld+" found")
				}
			}
		}
		// the threshold is computed from the accumulated total power of the members
		min23 := c.p.Field("lib", "ValidatorSet", "MinimumMaj23")
		tot := c.p.Field("lib", "ValidatorSet", "TotalPower")
		var pMin, pTot string
		for _, st := range storesTo(newVS, min23) {
			pMin = c.p.path(st.Val)
		}
		for _, st := range storesTo(newVS, tot) {
			pTot = c.p.path(st.Val)
		}
		r.Check(pTot != "" && has(pMin, "loopvar") || has(pMin, pTot), "R2/NewValidatorSet/threshold-from-total", c.p.Pos(newVS.Pos()), "MinimumMaj23 = "+short(pMin)+" derived from the members' total power", "MinimumMaj23 ("+pMin+") is not derived from the accumulated total power ("+pTot+")")
	}

	// ------------------------------------------------------------------ R3
	r.Rule("R3", "FLOW", "past committees come from a read-only view at the asked height: LoadCommittee → TimeMachine(height) → NewReadOnly(height)", 2)
	loadCommittee := c.fn("fsm.(*StateMachine).LoadCommittee")
	timeMachine := c.fn("fsm.(*StateMachine).TimeMachine")
	if loadCommittee != nil && timeMachine != nil {
		cs := callsIn(loadCommittee, true, timeMachine)
		r.Check(len(cs) >= 1, "R3/LoadCommittee/uses-TimeMachine", c.p.Pos(loadCommittee.Pos()), "goes through TimeMachine", "LoadCommittee no longer goes through TimeMachine")
		for _, x := range cs {
			p := c.p.path(argOf(x, 0))
			r.Check(p == "$2", "R3/LoadCommittee/height", c.p.Pos(x.Pos()), "TimeMachine(height)", "LoadCommittee opens the view at "+p+" instead of its height parameter")
		}
		// no answer without the view: every successful return has passed a successful TimeMachine
		c.mpt(mptSpec{rule: "R3", fn: loadCommittee, events: evSet{"TimeMachine": {timeMachine}},
			target: tgtOkReturn("ok-return"),
			reqs:   func(string) []string { return []string{"TimeMachine.ok"} }, minTarget: 1})
		// and the committee is read from that view, not from the live machine
		if getMembers := c.fn("fsm.(*StateMachine).GetCommitteeMembers"); getMembers != nil {
			for _, x := range callsIn(loadCommittee, true, getMembers) {
				p := c.p.path(recvOf(x))
				r.Check(has(p, ".TimeMachine($2)#0"), "R3/LoadCommittee/reads-the-view", c.p.Pos(x.Pos()), "members read from the TimeMachine view", "LoadCommittee reads the committee members from "+p+", not from the read-only view of the requested height: uncommitted writes of the block being applied would be visible")
			}
		}
		newROm := c.p.IfaceMethod("lib", "StoreI", "NewReadOnly")
		okRO := false
		instrs(timeMachine, func(in ssa.Instruction) {
			if cc := callCommon(in); cc != nil && cc.IsInvoke() && cc.Method == newROm && strings.Contains(c.p.path(cc.Args[0]), "$1") {
				okRO = true
			}
		})
		r.Check(okRO, "R3/TimeMachine/read-only-at-height", c.p.Pos(timeMachine.Pos()), "NewReadOnly(height)", "TimeMachine no longer opens a read-only store at the requested height")
	}

	// ------------------------------------------------------------------ R4
	r.Rule("R4", "WHO", "FSM caches are filled only from the FSM's own store view: every field of fsm.cache has a fixed writer set (a historical snapshot never inherits live parameters or records)", 10)
	cacheT := c.p.Named("fsm", "cache")
	if cacheT != nil {
		w := func(specs ...string) allow {
			a := allow{}
			for _, s := range specs {
				parts := strings.SplitN(s, "|", 2)
				if f := c.fnQuiet(parts[0]); f != nil {
					a[f] = parts[1]
				}
			}
			return a
		}
		reset := "fsm.(*StateMachine).ResetCaches|cleared"
		table := map[string]allow{
			"accounts":           w(reset, "fsm.(*StateMachine).StateWrite|plugin write invalidates the cache"),
			"pools":              w(reset, "fsm.(*StateMachine).StateWrite|plugin write invalidates the cache"),
			"feeParams":          w(reset, "fsm.(*StateMachine).GetParamsFee|lazy load from this FSM's store", "fsm.(*StateMachine).SetParamsFee|write-through"),
			"valParams":          w(reset, "fsm.(*StateMachine).GetParamsVal|lazy load from this FSM's store", "fsm.(*StateMachine).SetParamsVal|write-through"),
			"rootDexBatch":       w(reset, "fsm.(*StateMachine).SetRootDexCache|set by the controller from the certificate / root chain"),
			"liveValidators":     w(reset, "fsm.(*StateMachine).getCurrentValidators|lazy load from this FSM's store or the shared per-height list", "fsm.(*StateMachine).TimeMachine|per-height shared list for that very height"),
			"sharedValidatorSet": w(reset, "fsm.(*StateMachine).TimeMachine|marks the height whose list may be shared"),
			"sharedCache":        allow{},
		}
		st := cacheT.Underlying().(*types.Struct)
		var names []string
		for i := 0; i < st.NumFields(); i++ {
			names = append(names, st.Field(i).Name())
		}
		sort.Strings(names)
		for _, n := range names {
			al, known := table[n]
			if !known {
				// a cache added later concerns this property only if it can hold validator / committee data; whether it is
				// cleared on roll-back is C07.R3's question, not this rule's
				ft := types.TypeString(c.p.Field("fsm", "cache", n).Type(), shortQual)
				if strings.Contains(ft, "Validator") || strings.Contains(ft, "Committee") {
					r.Bad("R4/cache-field/"+n, c.p.Pos(cacheT.Obj().Pos()), "the FSM cache has a new field "+n+" of type "+ft+" that can hold validator or committee data and has no writer table: decide who may fill it, a historical snapshot must not inherit live records")
				} else {
					r.OK("R4/cache-field/"+n, c.p.Pos(cacheT.Obj().Pos()), "a cache of "+ft+": holds no validator or committee data (its roll-back is C07.R3's subject)")
				}
				continue
			}
			ws := c.whoWrites("R4", c.p.Field("fsm", "cache", n), "cache."+n, al, true)
			if len(ws) == 0 {
				r.OK("R4/writers-of/cache."+n+"/none", c.p.Pos(cacheT.Obj().Pos()), "set only at construction")
			}
		}
		// TimeMachine takes the per-height list from the shared cache under the very height it opens
		if timeMachine != nil {
			for _, stx := range storesTo(timeMachine, c.p.Field("fsm", "cache", "liveValidators")) {
				p := c.p.path(stx.Val)
				r.Check(has(p, ".sharedCache.sets[") && requestedHeight(p), "R4/TimeMachine/shared-list-height", c.p.Pos(stx.Pos()), "list taken from sharedCache.sets[height]", "TimeMachine seeds the historical validator list from "+p+", not from the shared cache entry of the requested height")
			}
		}
	}

	// ------------------------------------------------------------------ R5
	r.Rule("R5", "PAIR", "membership tests see every element: a binary search (slices.BinarySearch*, sort.Search*, sort.Find) in fsm/lib/bft/controller runs only on a slice that the same function sorted before (committee lists, validator lists and signer lists are stored in arrival order, not sorted)", 0)
	nBS := 0
	for _, f := range c.p.Funcs {
		switch pkgShort(f) {
		case "fsm", "lib", "bft", "controller":
		default:
			continue
		}
		if isTestFile(c.p, f.Pos()) {
			continue
		}
		var sorts []ssa.CallInstruction
		instrs(f, func(in ssa.Instruction) {
			if call, ok := in.(*ssa.Call); ok {
				if n := calleeName(call.Common()); (strings.HasPrefix(n, "sort.") && !strings.HasPrefix(n, "sort.Search") && !strings.HasPrefix(n, "sort.Find")) || strings.HasPrefix(n, "slices.Sort") {
					sorts = append(sorts, call)
				}
			}
		})
		instrs(f, func(in ssa.Instruction) {
			call, ok := in.(*ssa.Call)
			if !ok || len(call.Common().Args) == 0 {
				return
			}
			n := calleeName(call.Common())
			if !(strings.HasPrefix(n, "slices.BinarySearch") || strings.HasPrefix(n, "sort.Search") || strings.HasPrefix(n, "sort.Find")) {
				return
			}
			if !strings.HasPrefix(n, "slices.BinarySearch") {
				return // sort.Search/Find take a length and a predicate: the searched sequence is not an operand; not decided here
			}
			nBS++
			target := c.p.path(call.Common().Args[0])
			sorted := false
			for _, sc := range sorts {
				if len(sc.Common().Args) > 0 && c.p.path(sc.Common().Args[0]) == target && instrBefore(sc.(ssa.Instruction), call) {
					sorted = true
				}
			}
			r.Check(sorted, "R5/binary-search/"+fnName(enclosing(f)), c.p.Pos(call.Pos()), "searches "+target+", sorted earlier in the function",
				fnName(enclosing(f))+" runs "+n+" on "+target+", which this function did not sort: on an unsorted list (committee ids, validators and signers are kept in arrival order) a binary search misses elements that are present, so members are silently dropped from the set")
		})
	}
	r.Analysed["binary_searches"] = nBS
	r.OK("R5/summary", "?", fmt.Sprintf("%d binary searches over slices examined", nBS))

	// ------------------------------------------------------------------ R6
	r.Rule("R6", "COVER", "who is seated is decided by the canonical order: every sort getValidatorSet applies to the candidate list (directly or in a helper) uses a comparator that reads both Validator.StakedAmount and Validator.Address — the (stake, address) order is total, so cutting the list to the cap after it seats the same members on every node; a stake-only ranking leaves the members at the cap boundary to the sorting algorithm", 1)
	getVS := c.fnQuiet("fsm.(*StateMachine).getValidatorSet")
	stakeF, addrF := c.field("fsm", "Validator", "StakedAmount"), c.field("fsm", "Validator", "Address")
	if getVS != nil && stakeF != nil && addrF != nil {
		nSort := 0
		for _, g := range bodyFuncs(getVS, true) {
			instrs(g, func(in ssa.Instruction) {
				call, ok := in.(*ssa.Call)
				if !ok {
					return
				}
				n := calleeName(call.Common())
				if !(strings.HasPrefix(n, "slices.SortFunc") || strings.HasPrefix(n, "slices.SortStableFunc") || strings.HasPrefix(n, "sort.Slice")) {
					return
				}
				args := call.Common().Args
				if len(args) < 2 {
					return
				}
				var cmpFn *ssa.Function
				switch x := stripLift(args[len(args)-1]).(type) {
				case *ssa.MakeClosure:
					cmpFn, _ = x.Fn.(*ssa.Function)
				case *ssa.Function:
					cmpFn = x
				}
				nSort++
				key := "R6/getValidatorSet/sort-comparator"
				if cmpFn == nil {
					r.Bad(key, c.p.Pos(call.Pos()), "the comparator of this sort of the candidate list cannot be resolved to a function")
					return
				}
				reads := map[*types.Var]bool{}
				var scan func(f *ssa.Function, depth int)
				scan = func(f *ssa.Function, depth int) {
					for _, h := range withAnons(f) {
						instrs(h, func(i2 ssa.Instruction) {
							switch y := i2.(type) {
							case *ssa.FieldAddr:
								if fv := fieldOfAddr(y); fv != nil {
									reads[fv] = true
								}
							case *ssa.Field:
								if st := derefStruct(y.X.Type()); st != nil && y.Field < st.NumFields() {
									reads[st.Field(y.Field)] = true
								}
							case *ssa.Call:
								if sc := y.Common().StaticCallee(); sc != nil && depth < 2 && inCanopy(sc) {
									scan(origin(sc), depth+1)
								}
							}
						})
					}
				}
				scan(cmpFn, 0)
				r.Check(reads[stakeF] && reads[addrF], key, c.p.Pos(call.Pos()), "orders by stake and address",
					fmt.Sprintf("getValidatorSet sorts the candidates with a comparator that reads StakedAmount=%v, Address=%v: without the address tie-break the order of equal stakes — and, once the list is cut to the cap, the membership — is left to the sorting algorithm", reads[stakeF], reads[addrF]))
			})
		}
		r.Check(nSort >= 1, "R6/getValidatorSet/sorts", c.p.Pos(getVS.Pos()), fmt.Sprintf("%d sort(s) of the candidate list", nSort), "getValidatorSet no longer sorts the candidates (rule needs re-reading)")
	}

}
