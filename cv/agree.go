package main

import (
	"go/ast"
	"go/types"
	"sort"
	"strings"

	"golang.org/x/tools/go/ssa"
)

// AGREE engine: sibling constructs must enumerate the same set.

type switchCase struct {
	Name   string // type name (type switch) or constant name (expression switch)
	Clause *ast.CaseClause
}

type switchInfo struct {
	Cases      []switchCase
	HasDefault bool
	Default    *ast.CaseClause
}

// typeSwitchOf returns the case list of the (first, outermost) type switch in f's syntax.
func (p *Prog) typeSwitchOf(f *ssa.Function) *switchInfo {
	info := p.InfoFor(f)
	syn := f.Syntax()
	if info == nil || syn == nil {
		return nil
	}
	var out *switchInfo
	ast.Inspect(syn, func(n ast.Node) bool {
		if out != nil {
			return false
		}
		ts, ok := n.(*ast.TypeSwitchStmt)
		if !ok {
			return true
		}
		out = &switchInfo{}
		for _, st := range ts.Body.List {
			cc := st.(*ast.CaseClause)
			if cc.List == nil {
				out.HasDefault = true
				out.Default = cc
				continue
			}
			for _, e := range cc.List {
				if tv, ok := info.Types[e]; ok {
					name := types.TypeString(tv.Type, shortQual)
					out.Cases = append(out.Cases, switchCase{Name: name, Clause: cc})
				}
			}
		}
		return false
	})
	return out
}

// exprSwitchOf returns the case list of the first expression switch in f whose cases are named constants.
func (p *Prog) exprSwitchOf(f *ssa.Function) *switchInfo {
	info := p.InfoFor(f)
	syn := f.Syntax()
	if info == nil || syn == nil {
		return nil
	}
	var out *switchInfo
	ast.Inspect(syn, func(n ast.Node) bool {
		if out != nil {
			return false
		}
		ss, ok := n.(*ast.SwitchStmt)
		if !ok || ss.Tag == nil {
			return true
		}
		si := &switchInfo{}
		for _, st := range ss.Body.List {
			cc := st.(*ast.CaseClause)
			if cc.List == nil {
				si.HasDefault = true
				si.Default = cc
				continue
			}
			for _, e := range cc.List {
				name := ""
				switch x := e.(type) {
				case *ast.Ident:
					if _, ok := info.Uses[x].(*types.Const); ok {
						name = x.Name
					}
				case *ast.SelectorExpr:
					if _, ok := info.Uses[x.Sel].(*types.Const); ok {
						name = x.Sel.Name
					}
				}
				if name == "" {
					if tv, ok := info.Types[e]; ok && tv.Value != nil {
						name = tv.Value.ExactString()
					}
				}
				si.Cases = append(si.Cases, switchCase{Name: name, Clause: cc})
			}
		}
		if len(si.Cases) > 0 {
			out = si
			return false
		}
		return true
	})
	return out
}

// defaultReturnsError: the default clause ends in a return whose last result is not the nil identifier.
func defaultReturnsError(si *switchInfo) bool {
	if si == nil || si.Default == nil || len(si.Default.Body) == 0 {
		return false
	}
	ret, ok := si.Default.Body[len(si.Default.Body)-1].(*ast.ReturnStmt)
	if !ok || len(ret.Results) == 0 {
		return false
	}
	last := ret.Results[len(ret.Results)-1]
	if id, ok := last.(*ast.Ident); ok && id.Name == "nil" {
		return false
	}
	return true
}

// registryInsertions finds `G[K] = new(T)` / `G[K] = &T{}` assignments to the package-level map G
// anywhere in the given package; returns K (constant name) -> T (type string).
func (p *Prog) registryInsertions(pkgShortName string, global types.Object) map[string]string {
	pk := p.pkg(pkgShortName)
	out := map[string]string{}
	if pk == nil || global == nil {
		return out
	}
	for _, file := range pk.Syntax {
		ast.Inspect(file, func(n ast.Node) bool {
			as, ok := n.(*ast.AssignStmt)
			if !ok || len(as.Lhs) != 1 || len(as.Rhs) != 1 {
				return true
			}
			ix, ok := as.Lhs[0].(*ast.IndexExpr)
			if !ok {
				return true
			}
			var obj types.Object
			switch x := ix.X.(type) {
			case *ast.Ident:
				obj = pk.TypesInfo.Uses[x]
			case *ast.SelectorExpr:
				obj = pk.TypesInfo.Uses[x.Sel]
			}
			if obj != global {
				return true
			}
			key := ""
			switch k := ix.Index.(type) {
			case *ast.Ident:
				key = k.Name
			case *ast.SelectorExpr:
				key = k.Sel.Name
			}
			if tv, ok := pk.TypesInfo.Types[as.Rhs[0]]; ok {
				out[key] = types.TypeString(tv.Type, shortQual)
			}
			return true
		})
	}
	return out
}

// setsEqual records obligations for the symmetric difference of two named sets.
func (c *ctx) setsEqual(rule, aName string, a []string, bName string, b []string, pos string) {
	as, bs := map[string]bool{}, map[string]bool{}
	for _, x := range a {
		as[x] = true
	}
	for _, x := range b {
		bs[x] = true
	}
	all := map[string]bool{}
	for x := range as {
		all[x] = true
	}
	for x := range bs {
		all[x] = true
	}
	var names []string
	for x := range all {
		names = append(names, x)
	}
	sort.Strings(names)
	for _, x := range names {
		construct := rule + "/" + aName + "~" + bName + "/" + x
		switch {
		case as[x] && bs[x]:
			c.r.OK(construct, pos, "present in both")
		case as[x]:
			c.r.Bad(construct, pos, x+" is handled by "+aName+" but missing from "+bName)
		default:
			c.r.Bad(construct, pos, x+" is handled by "+bName+" but missing from "+aName)
		}
	}
}

func caseNames(si *switchInfo) []string {
	if si == nil {
		return nil
	}
	var out []string
	for _, c := range si.Cases {
		out = append(out, c.Name)
	}
	return out
}

// sliceLitElems returns the element values of a slice literal value ([]T{a,b}) in SSA form:
// Slice(Alloc [n]T) with one store per element. nil if v is not such a literal.
func sliceLitElems(v ssa.Value) []ssa.Value {
	var al *ssa.Alloc
	switch x := v.(type) {
	case *ssa.Slice:
		al, _ = x.X.(*ssa.Alloc)
	case *ssa.Alloc: // a local array ([N]T{...}) indexed directly
		al = x
	}
	if al == nil {
		return nil
	}
	var out []ssa.Value
	for _, ref := range *al.Referrers() {
		ia, ok := ref.(*ssa.IndexAddr)
		if !ok {
			continue
		}
		for _, r2 := range *ia.Referrers() {
			if st, ok := r2.(*ssa.Store); ok && st.Addr == ia {
				out = append(out, st.Val)
			}
		}
	}
	return out
}

// trimWrappers removes the address constructors the repo wraps raw bytes in.
func trimAddrWrappers(path string) string {
	for {
		changed := false
		for _, w := range []string{"lib/crypto.NewAddressFromBytes(", "lib/crypto.NewAddress("} {
			if strings.HasPrefix(path, w) && strings.HasSuffix(path, ")") {
				path = path[len(w) : len(path)-1]
				changed = true
			}
		}
		if !changed {
			return path
		}
	}
}
