package main

import (
	"fmt"
	"go/token"
	"go/types"
	"sort"
	"strings"

	"golang.org/x/tools/go/ssa"
)

// DET engine: determinism lint over the consensus-reachable part of canopy.

type detSet struct {
	efMemo map[*ssa.Function]bool
	c      *ctx
	roots  []*ssa.Function
	reach  map[*ssa.Function]bool // canopy functions reachable from the roots (cut at sinks)
	list   []*ssa.Function

	fieldReads    map[*types.Var]bool
	structEscapes map[*types.Named]bool
}

// isObservabilitySink: metrics and logging do not feed consensus results; the walk does not descend into them.
func isObservabilitySink(f *ssa.Function) bool {
	f = origin(f)
	if f == nil {
		return false
	}
	if fnName(f) == "lib.TimeTrack" {
		return true // logging helper: prints how long a function took
	}
	if f.Signature.Recv() != nil {
		rt := f.Signature.Recv().Type().String()
		if strings.HasSuffix(rt, "lib.Metrics") || strings.HasSuffix(rt, "lib.Logger") || strings.Contains(rt, "prometheus") {
			return true
		}
	}
	return false
}

func newDetSet(c *ctx, rootSpecs ...string) *detSet {
	d := &detSet{c: c}
	for _, s := range rootSpecs {
		if f := c.fn(s); f != nil {
			d.roots = append(d.roots, f)
		}
	}
	d.reach = c.p.reachable(d.roots, func(f *ssa.Function) bool {
		return !inCanopy(f) || isObservabilitySink(f) || isTestFile(c.p, f.Pos())
	})
	d.list = sortedFuncs(d.reach)
	return d
}

// mapRange describes one `for k, v := range m` over a map.
type mapRange struct {
	fn    *ssa.Function
	rng   *ssa.Range
	class string // "" = unclassified
	why   string
}

// loopBlocks returns the blocks of the loop whose header block contains the Next of rng.
func loopBlocks(rng *ssa.Range) (header *ssa.BasicBlock, body map[*ssa.BasicBlock]bool) {
	var next *ssa.Next
	for _, ref := range *rng.Referrers() {
		if n, ok := ref.(*ssa.Next); ok {
			next = n
		}
	}
	if next == nil {
		return nil, nil
	}
	header = next.Block()
	// body = blocks that can reach the header again without leaving through the exit edge:
	// nodes reachable from header's "continue" successor from which header is reachable
	body = map[*ssa.BasicBlock]bool{}
	canReach := func(from *ssa.BasicBlock) bool {
		seen := map[*ssa.BasicBlock]bool{}
		st := []*ssa.BasicBlock{from}
		for len(st) > 0 {
			b := st[len(st)-1]
			st = st[:len(st)-1]
			if b == header {
				return true
			}
			if seen[b] {
				continue
			}
			seen[b] = true
			st = append(st, b.Succs...)
		}
		return false
	}
	seen := map[*ssa.BasicBlock]bool{header: true}
	st := append([]*ssa.BasicBlock(nil), header.Succs...)
	for len(st) > 0 {
		b := st[len(st)-1]
		st = st[:len(st)-1]
		if seen[b] {
			continue
		}
		seen[b] = true
		if canReach(b) {
			body[b] = true
			st = append(st, b.Succs...)
		}
	}
	return header, body
}

// classifyMapRange decides whether the loop's effect is independent of iteration order.
func (d *detSet) classifyMapRange(f *ssa.Function, rng *ssa.Range) (class, why string) {
	p := d.c.p
	header, body := loopBlocks(rng)
	if header == nil {
		return "", "no Next found for the range"
	}
	blocks := []*ssa.BasicBlock{header}
	for b := range body {
		blocks = append(blocks, b)
	}
	sort.Slice(blocks, func(i, j int) bool { return blocks[i].Index < blocks[j].Index })
	// values derived from the iteration variables
	iter := map[ssa.Value]bool{}
	for _, ref := range *rng.Referrers() {
		if n, ok := ref.(*ssa.Next); ok {
			iter[n] = true
		}
	}
	// a struct-valued range variable is spilled into a cell that is overwritten at the top of every
	// iteration: that cell IS the iteration variable
	rangeCells := map[ssa.Value]bool{}
	for _, b := range blocks {
		for _, in := range b.Instrs {
			if st, ok := in.(*ssa.Store); ok {
				if a, isAlloc := st.Addr.(*ssa.Alloc); isAlloc {
					if ex, ok := st.Val.(*ssa.Extract); ok {
						if _, isNext := ex.Tuple.(*ssa.Next); isNext {
							rangeCells[a] = true
							iter[a] = true
						}
					}
				}
			}
		}
	}
	changed := true
	for changed {
		changed = false
		for _, b := range blocks {
			for _, in := range b.Instrs {
				v, ok := in.(ssa.Value)
				if !ok || iter[v] {
					continue
				}
				for _, op := range in.Operands(nil) {
					if *op != nil && iter[*op] {
						iter[v] = true
						changed = true
						break
					}
				}
			}
		}
	}
	// an append whose variadic elements carry iteration data yields an iteration-dependent slice (the element reaches the
	// call through a temporary array, not as an operand)
	for again := true; again; {
		again = false
		for _, b := range blocks {
			for _, in := range b.Instrs {
				call, ok := in.(*ssa.Call)
				if !ok || iter[call] {
					continue
				}
				if bi, ok := call.Common().Value.(*ssa.Builtin); ok && bi.Name() == "append" && len(call.Common().Args) == 2 {
					if iter[call.Common().Args[1]] || iterAny(iter, sliceLitElems(call.Common().Args[1])) {
						iter[call] = true
						again = true
					}
				}
			}
		}
		// propagate to the users
		for changed := true; changed; {
			changed = false
			for _, b := range blocks {
				for _, in := range b.Instrs {
					v, ok := in.(ssa.Value)
					if !ok || iter[v] {
						continue
					}
					for _, op := range in.Operands(nil) {
						if *op != nil && iter[*op] {
							iter[v] = true
							changed, again = true, true
							break
						}
					}
				}
			}
		}
	}
	var appendsTo []ssa.Value       // slices appended to with iteration-derived data
	builtBases := map[string]bool{} // containers (locals / fields) that receive the slices built in map order
	var notes []string
	onlyKeyed := true
	for _, b := range blocks {
		for _, in := range b.Instrs {
			switch x := in.(type) {
			case *ssa.MapUpdate:
				if !iter[x.Key] {
					// writing a fixed key with iteration-dependent data: last writer wins -> order dependent
					if iter[x.Value] {
						return "", "writes iteration-dependent data under a key that does not depend on the iteration variable at " + p.Pos(x.Pos())
					}
				}
				notes = append(notes, "map update keyed by the iteration variable")
			case *ssa.Store:
				// accumulation into a local integer is commutative only for + | & ^ ; a plain overwrite with iteration data is not
				if _, isAlloc := x.Addr.(*ssa.Alloc); isAlloc && iter[x.Val] {
					if rangeCells[x.Addr] || isErrorType(x.Val.Type()) {
						continue // the iteration variable itself / an error that ends the loop
					}
					if bo, ok := x.Val.(*ssa.BinOp); ok && isCommutativeAcc(bo) {
						notes = append(notes, "commutative accumulation")
						continue
					}
					onlyKeyed = false
					notes = append(notes, "stores iteration data into a local at "+p.Pos(x.Pos()))
				}
				isAppend := false
				for _, a := range appendsTo {
					if a == x.Val {
						isAppend = true
					}
				}
				if isAppend {
					builtBases[containerBase(p.path(x.Addr))] = true
					continue
				}
				if _, isField := x.Addr.(*ssa.FieldAddr); isField && iter[x.Val] && !iter[x.Addr] {
					return "", "stores iteration-dependent data into a field outside the iterated element at " + p.Pos(x.Pos())
				}
			case *ssa.Return:
				for _, res := range x.Results {
					if iter[res] && !isErrorType(res.Type()) {
						return "", "returns a value that depends on which element is visited first at " + p.Pos(x.Pos())
					}
				}
			case ssa.CallInstruction:
				cc := x.Common()
				if b, ok := cc.Value.(*ssa.Builtin); ok {
					switch b.Name() {
					case "append":
						if len(cc.Args) == 2 && iter[cc.Args[1]] || iterAny(iter, sliceLitElems(cc.Args[len(cc.Args)-1])) {
							if v, ok := in.(ssa.Value); ok {
								appendsTo = append(appendsTo, v)
							}
						}
					case "delete", "len", "cap", "copy", "min", "max":
					}
					continue
				}
				name := calleeName(cc)
				// a call that can only compute (no effect but its results, which are tracked as iteration data) is neutral
				if readOnlyInvoke(cc) {
					notes = append(notes, "reads through "+name)
					continue
				}
				if sc := cc.StaticCallee(); sc != nil && d.effectFree(sc, 0) {
					if _, isGo := in.(*ssa.Go); !isGo {
						notes = append(notes, "computes with "+name+" (effect-free)")
						continue
					}
				}
				keyed := false
				for _, a := range cc.Args {
					if iter[a] {
						keyed = true
					}
				}
				if cc.IsInvoke() && iter[cc.Value] {
					keyed = true
				}
				if !keyed {
					onlyKeyed = false
					notes = append(notes, "calls "+name+" with no iteration-derived argument")
				} else {
					notes = append(notes, "calls "+name+" keyed by the iteration variable")
				}
			}
		}
	}
	// phi accumulators in the header (SSA-lifted locals): must be commutative
	for _, in := range header.Instrs {
		ph, ok := in.(*ssa.Phi)
		if !ok {
			continue
		}
		for _, e := range ph.Edges {
			if !iter[e] {
				continue
			}
			// slices built by append are handled below; integer accumulators must be commutative
			if bo, ok := e.(*ssa.BinOp); ok {
				if !isCommutativeAcc(bo) {
					return "", "accumulates with a non-commutative operation " + bo.Op.String() + " at " + p.Pos(bo.Pos())
				}
				continue
			}
			if _, isSlice := ph.Type().Underlying().(*types.Slice); isSlice {
				appendsTo = append(appendsTo, ph)
				continue
			}
			if call, ok := e.(*ssa.Call); ok {
				if b, ok := call.Common().Value.(*ssa.Builtin); ok && (b.Name() == "max" || b.Name() == "min") {
					continue
				}
			}
			// any other loop-carried value that depends on the iteration is order dependent (e.g. "last seen")
			if !isErrorType(ph.Type()) {
				return "", "carries the iteration-dependent value " + ph.Name() + " across iterations (last-writer-wins) at " + p.Pos(ph.Pos())
			}
		}
	}
	if len(appendsTo) > 0 {
		// class c: every slice built from the iteration is sorted before any other use, in this function
		for _, a := range appendsTo {
			if ph, ok := a.(*ssa.Phi); ok {
				builtBases[containerBase(p.path(ph))] = true
			}
		}
		sortedBases := map[string]bool{}
		instrs(f, func(in ssa.Instruction) {
			if cc := callCommon(in); cc != nil && len(cc.Args) > 0 {
				n := calleeName(cc)
				if strings.HasPrefix(n, "sort.") || strings.HasPrefix(n, "slices.Sort") {
					sortedBases[containerBase(p.path(cc.Args[0]))] = true
				} else if sc := cc.StaticCallee(); sc != nil && inCanopyRaw(sc) {
					// a helper that sorts its parameter in place
					if i := sorterParam(p, sc, 0); i >= 0 && i < len(cc.Args) {
						sortedBases[containerBase(p.path(cc.Args[i]))] = true
					}
				}
			}
		})
		all := len(builtBases) > 0
		for b := range builtBases {
			if !sortedBases[b] {
				all = false
			}
		}
		if all {
			return "c", "collects into a slice that is sorted in the same function before it is used: " + strings.Join(uniq(notes), "; ")
		}
		return "", fmt.Sprintf("builds a slice in map order (%v) and does not sort it in this function (sorted: %v)", keysOfBool(builtBases), keysOfBool(sortedBases))
	}
	if onlyKeyed {
		return "a/e", "every effect is keyed by the iteration variable or is a commutative accumulation: " + strings.Join(uniq(notes), "; ")
	}
	return "", "has effects that are not keyed by the iteration variable: " + strings.Join(uniq(notes), "; ")
}

func iterAny(iter map[ssa.Value]bool, vs []ssa.Value) bool {
	for _, v := range vs {
		if iter[v] {
			return true
		}
	}
	return false
}

func isCommutativeAcc(bo *ssa.BinOp) bool {
	switch bo.Op.String() {
	case "+", "|", "&", "^", "*":
		return true
	}
	return false
}

func uniq(xs []string) []string {
	seen := map[string]bool{}
	var out []string
	for _, x := range xs {
		if !seen[x] {
			seen[x] = true
			out = append(out, x)
		}
	}
	sort.Strings(out)
	return out
}

// mapRanges lists every range-over-map in the reachable set.
func (d *detSet) mapRanges() []mapRange {
	var out []mapRange
	for _, f := range d.list {
		instrs(f, func(in ssa.Instruction) {
			rng, ok := in.(*ssa.Range)
			if !ok {
				return
			}
			if _, isMap := rng.X.Type().Underlying().(*types.Map); !isMap {
				return
			}
			cl, why := d.classifyMapRange(f, rng)
			out = append(out, mapRange{f, rng, cl, why})
		})
	}
	return out
}

// nondetSource names calls whose result differs between nodes/runs.
func nondetSource(cc *ssa.CallCommon) string {
	sc := cc.StaticCallee()
	if sc == nil || sc.Pkg == nil {
		return ""
	}
	pk, n := sc.Pkg.Pkg.Path(), sc.Name()
	switch {
	case pk == "time" && (n == "Now" || n == "Since" || n == "Until"):
		return "time." + n
	case pk == "math/rand" || pk == "math/rand/v2":
		if sc.Signature.Recv() == nil && n != "New" && n != "NewSource" {
			return pk + "." + n
		}
	case pk == "crypto/rand" && (n == "Read" || n == "Int" || n == "Prime"):
		return "crypto/rand." + n
	case pk == "os" && (n == "Getenv" || n == "LookupEnv" || n == "Hostname" || n == "Getpid" || n == "ReadFile" || n == "Open"):
		return "os." + n
	case pk == "runtime" && (n == "NumCPU" || n == "NumGoroutine" || n == "GOMAXPROCS"):
		return "runtime." + n
	}
	return ""
}

// ---------------------------------------------------------------------------------------------
// clock taint: values derived from time.Now/Since may only reach observability sinks

type clockFinding struct {
	pos  string
	what string
}

// sinkOnlyFunc: a (closure) function whose every call is an observability sink or a time operation.
func (d *detSet) sinkOnlyFunc(f *ssa.Function, depth int) bool {
	if f == nil || len(f.Blocks) == 0 || depth > 2 {
		return false
	}
	ok := true
	instrs(f, func(in ssa.Instruction) {
		switch x := in.(type) {
		case *ssa.Store:
			switch a := x.Addr.(type) {
			case *ssa.Alloc, *ssa.FreeVar:
			case *ssa.IndexAddr:
				if _, isLocal := a.X.(*ssa.Alloc); !isLocal {
					ok = false
				}
			default:
				ok = false
			}
		case *ssa.MapUpdate, *ssa.Send, *ssa.Go:
			ok = false
		case ssa.CallInstruction:
			if !d.benignCall(x.Common(), depth) {
				ok = false
			}
		}
	})
	return ok
}

// benignCall: a call that cannot carry a clock value into consensus results.
func (d *detSet) benignCall(cc *ssa.CallCommon, depth int) bool {
	if _, isBuiltin := cc.Value.(*ssa.Builtin); isBuiltin {
		return true
	}
	if cc.IsInvoke() {
		rt := cc.Value.Type().String()
		return strings.Contains(rt, "prometheus") || strings.HasSuffix(rt, "LoggerI") || strings.HasSuffix(rt, "lib.LoggerI")
	}
	sc := cc.StaticCallee()
	if sc == nil {
		// a call of a closure value: benign if the closure is sink-only
		if mc, ok := cc.Value.(*ssa.MakeClosure); ok {
			return d.sinkOnlyFunc(mc.Fn.(*ssa.Function), depth+1)
		}
		if u, ok := cc.Value.(*ssa.UnOp); ok {
			// local closure variable: find what is stored into it
			if a, ok := u.X.(*ssa.Alloc); ok {
				okAll, n := true, 0
				for _, ref := range *a.Referrers() {
					if st, ok := ref.(*ssa.Store); ok && st.Addr == a {
						n++
						if mc, ok := st.Val.(*ssa.MakeClosure); !ok || !d.sinkOnlyFunc(mc.Fn.(*ssa.Function), depth+1) {
							okAll = false
						}
					}
				}
				return okAll && n > 0
			}
		}
		return false
	}
	if isObservabilitySink(sc) {
		return true
	}
	if fnName(origin(sc)) == "lib.TimeTrack" {
		return true // logging helper: prints how long a function took
	}
	if isPureLeaf(sc) {
		return true
	}
	if sc.Pkg != nil {
		switch sc.Pkg.Pkg.Path() {
		case "time", "fmt", "strconv", "strings":
			return true
		}
		if strings.Contains(sc.Pkg.Pkg.Path(), "prometheus") {
			return true
		}
	}
	if sc.Parent() != nil { // nested function literal
		return d.sinkOnlyFunc(sc, depth+1)
	}
	// a named helper (or the bound-method wrapper of one) that only feeds observability sinks — e.g. an observe closure
	// turned into a method
	if (sc.Synthetic != "" || inCanopy(sc)) && d.sinkOnlyFunc(sc, depth+1) {
		return true
	}
	return false
}

// clockTaint follows one clock value through f and reports where it can escape into results.
func (d *detSet) clockTaint(f *ssa.Function, src ssa.Value) []clockFinding {
	p := d.c.p
	var out []clockFinding
	tainted := map[ssa.Value]bool{src: true}
	cells := map[ssa.Value]bool{}
	funcs := withAnons(enclosing(f))
	changed := true
	for iter := 0; changed && iter < 30; iter++ {
		changed = false
		for _, g := range funcs {
			// closures: free vars bound to tainted cells/values
			if g.Parent() != nil {
				instrs(g.Parent(), func(in ssa.Instruction) {
					if mc, ok := in.(*ssa.MakeClosure); ok && mc.Fn == g {
						for i, b := range mc.Bindings {
							if (tainted[b] || cells[b]) && i < len(g.FreeVars) && !cells[g.FreeVars[i]] {
								cells[g.FreeVars[i]] = true
								changed = true
							}
						}
					}
				})
			}
			instrs(g, func(in ssa.Instruction) {
				if st, ok := in.(*ssa.Store); ok && tainted[st.Val] {
					switch a := st.Addr.(type) {
					case *ssa.Alloc, *ssa.FreeVar:
						if !cells[a] {
							cells[a] = true
							changed = true
						}
					case *ssa.IndexAddr:
						// slot of a local array (the backing store of a variadic argument list)
						if la, ok := a.X.(*ssa.Alloc); ok && !cells[la] {
							cells[la] = true
							changed = true
						}
					}
					return
				}
				v, ok := in.(ssa.Value)
				if !ok || tainted[v] {
					return
				}
				switch x := in.(type) {
				case *ssa.UnOp:
					if cells[x.X] || tainted[x.X] {
						tainted[v] = true
						changed = true
					}
				case *ssa.Slice:
					if cells[x.X] || tainted[x.X] {
						tainted[v] = true
						changed = true
					}
				case *ssa.Call:
					// results of time operations on tainted values stay tainted; other calls are judged as uses below
					for _, a := range x.Common().Args {
						if tainted[a] {
							if sc := x.Common().StaticCallee(); sc != nil && sc.Pkg != nil && sc.Pkg.Pkg.Path() == "time" {
								tainted[v] = true
								changed = true
							}
						}
					}
				case *ssa.MakeClosure:
				default:
					for _, op := range in.Operands(nil) {
						if *op != nil && tainted[*op] {
							tainted[v] = true
							changed = true
							break
						}
					}
				}
			})
		}
	}
	// uses
	for _, g := range funcs {
		instrs(g, func(in ssa.Instruction) {
			uses := false
			for _, op := range in.Operands(nil) {
				if *op != nil && tainted[*op] {
					uses = true
				}
			}
			if !uses {
				return
			}
			switch x := in.(type) {
			case *ssa.Store:
				switch a := x.Addr.(type) {
				case *ssa.Alloc, *ssa.FreeVar:
				default:
					if ia, ok := a.(*ssa.IndexAddr); ok {
						if _, isLocal := ia.X.(*ssa.Alloc); isLocal {
							break
						}
					}
					if tainted[x.Val] {
						// a field that no non-test canopy code ever reads (a statistics slot) cannot carry the value anywhere
						if fv := fieldOfAddr(x.Addr); fv != nil && !d.fieldReadAnywhere(fv) {
							break
						}
						out = append(out, clockFinding{p.Pos(in.Pos()), "a clock-derived value is stored into " + p.path(x.Addr)})
					}
				}
			case *ssa.MapUpdate:
				out = append(out, clockFinding{p.Pos(in.Pos()), "a clock-derived value is stored into a map"})
			case *ssa.Send:
				out = append(out, clockFinding{p.Pos(in.Pos()), "a clock-derived value is sent on a channel"})
			case *ssa.Return:
				if g.Parent() == nil || !d.sinkOnlyFunc(g, 0) {
					out = append(out, clockFinding{p.Pos(firstPos(in)), "a clock-derived value is returned from " + fnName(g)})
				}
			case *ssa.If:
				// both arms may differ only in observability
				for _, s := range in.Block().Succs {
					if len(s.Preds) != 1 {
						continue // join block
					}
					for _, bi := range s.Instrs {
						switch y := bi.(type) {
						case *ssa.Store:
							if ia, ok := y.Addr.(*ssa.IndexAddr); ok {
								if _, isLocal := ia.X.(*ssa.Alloc); isLocal {
									continue
								}
							}
							if _, isAlloc := y.Addr.(*ssa.Alloc); !isAlloc {
								out = append(out, clockFinding{p.Pos(bi.Pos()), "a branch on a clock-derived condition guards a store to " + p.path(y.Addr)})
							}
						case *ssa.Return:
							for _, res := range y.Results {
								if c, isConst := res.(*ssa.Const); !isConst || (c.Value != nil) {
									_ = c
								}
							}
						case *ssa.MapUpdate, *ssa.Send, *ssa.Go:
							out = append(out, clockFinding{p.Pos(bi.Pos()), "a branch on a clock-derived condition guards a state change"})
						case ssa.CallInstruction:
							if !d.benignCall(y.Common(), 0) {
								out = append(out, clockFinding{p.Pos(bi.Pos()), "a branch on a clock-derived condition guards the call " + calleeName(y.Common())})
							}
						}
					}
				}
			case ssa.CallInstruction:
				if !d.benignCall(x.Common(), 0) {
					out = append(out, clockFinding{p.Pos(in.Pos()), "a clock-derived value is passed to " + calleeName(x.Common())})
				}
			}
		})
	}
	return out
}

func firstPos(in ssa.Instruction) (pos token.Pos) {
	if in.Pos().IsValid() {
		return in.Pos()
	}
	for _, bi := range in.Block().Instrs {
		if bi.Pos().IsValid() {
			pos = bi.Pos()
		}
	}
	return
}

// localAddr: the address points into memory allocated by this function (a local, a fresh make/new, or inside one).
func localAddr(v ssa.Value) bool {
	for i := 0; i < 8; i++ {
		switch x := v.(type) {
		case *ssa.Alloc, *ssa.MakeSlice, *ssa.MakeMap:
			return true
		case *ssa.FieldAddr:
			v = x.X
		case *ssa.IndexAddr:
			v = x.X
		case *ssa.Slice:
			v = x.X
		case *ssa.Phi:
			for _, e := range x.Edges {
				if !localAddr(e) {
					return false
				}
			}
			return len(x.Edges) > 0
		default:
			return false
		}
	}
	return false
}

// pureStd: standard-library functions without effects on their arguments or on global state.
func pureStd(f *ssa.Function) bool {
	if f == nil || f.Pkg == nil {
		return false
	}
	switch f.Pkg.Pkg.Path() {
	case "bytes":
		switch f.Name() {
		case "Equal", "Compare", "Clone", "HasPrefix", "HasSuffix", "Contains", "Index", "TrimPrefix", "TrimSuffix":
			return true
		}
	case "strings":
		return f.Signature.Recv() == nil
	case "strconv", "math", "math/bits", "unicode/utf8", "cmp":
		return true
	case "slices":
		return strings.HasPrefix(f.Name(), "Contains") || strings.HasPrefix(f.Name(), "Index") || f.Name() == "Equal" || f.Name() == "Clone"
	case "encoding/binary":
		return strings.HasPrefix(f.Name(), "Uint") // reads
	}
	return false
}

// readOnlyInvoke: interface methods that only read (store getters).
func readOnlyInvoke(cc *ssa.CallCommon) bool {
	if !cc.IsInvoke() {
		return false
	}
	rt := types.TypeString(cc.Value.Type(), shortQual)
	switch cc.Method.Name() {
	case "Get":
		return strings.HasSuffix(rt, "lib.RStoreI") || strings.HasSuffix(rt, "lib.RWStoreI") || strings.HasSuffix(rt, "lib.StoreI") || strings.HasSuffix(rt, "store.TxnReaderI")
	case "Bytes", "String", "Equals", "Address":
		return true
	}
	return false
}

// effectFree: calling f cannot change memory visible to the caller or to anyone else: it stores only into memory it
// allocated itself, updates no foreign map, sends/spawns nothing and calls only effect-free functions. What it computes
// reaches the caller through its results only.
func (d *detSet) effectFree(f *ssa.Function, depth int) bool {
	f = origin(f)
	if v, ok := d.efMemo[f]; ok {
		return v
	}
	if pureStd(f) {
		return true
	}
	if len(f.Blocks) == 0 || depth > 3 {
		return false
	}
	if d.efMemo == nil {
		d.efMemo = map[*ssa.Function]bool{}
	}
	d.efMemo[f] = false // recursion: assume the worst
	ok := true
	for _, b := range f.Blocks {
		for _, in := range b.Instrs {
			switch x := in.(type) {
			case *ssa.Store:
				if !localAddr(x.Addr) {
					ok = false
				}
			case *ssa.MapUpdate:
				if !localAddr(x.Map) {
					ok = false
				}
			case *ssa.Send, *ssa.Go, *ssa.Defer, *ssa.Panic:
				ok = false
			case *ssa.Call:
				cc := x.Common()
				if bi, isB := cc.Value.(*ssa.Builtin); isB {
					if bi.Name() == "copy" && !localAddr(cc.Args[0]) {
						ok = false
					}
					if bi.Name() == "delete" && !localAddr(cc.Args[0]) {
						ok = false
					}
					if bi.Name() == "append" && len(cc.Args) > 0 {
						// appending to a foreign slice may write into its spare capacity
						if _, fresh := cc.Args[0].(*ssa.Const); !fresh && !localAddr(cc.Args[0]) {
							if _, isSlice := cc.Args[0].(*ssa.Slice); !isSlice {
								ok = false
							}
						}
					}
					continue
				}
				if readOnlyInvoke(cc) {
					continue
				}
				sc := cc.StaticCallee()
				if sc == nil || !d.effectFree(sc, depth+1) {
					ok = false
				}
			}
			if !ok {
				break
			}
		}
		if !ok {
			break
		}
	}
	d.efMemo[f] = ok
	return ok
}

// isPureLeaf: a function that only reads (no stores outside locals, no map updates, no calls but builtins).
func isPureLeaf(f *ssa.Function) bool {
	if f == nil || len(f.Blocks) == 0 {
		return false
	}
	pure := true
	instrs(f, func(in ssa.Instruction) {
		switch x := in.(type) {
		case *ssa.Store:
			if _, ok := x.Addr.(*ssa.Alloc); !ok {
				pure = false
			}
		case *ssa.MapUpdate, *ssa.Send, *ssa.Go, *ssa.Defer:
			pure = false
		case *ssa.Call:
			if _, ok := x.Common().Value.(*ssa.Builtin); !ok {
				pure = false
			}
		}
	})
	return pure
}

// sorterParam: f sorts one of its slice parameters in place (sort.* / slices.Sort* directly, or through another such
// function): the parameter's index, -1 if none.
func sorterParam(p *Prog, f *ssa.Function, depth int) int {
	f = origin(f)
	if f == nil || len(f.Blocks) == 0 || depth > 2 {
		return -1
	}
	res := -1
	for _, b := range f.Blocks {
		for _, in := range b.Instrs {
			call, ok := in.(*ssa.Call)
			if !ok || len(call.Common().Args) == 0 {
				continue
			}
			arg := -1
			n := calleeName(call.Common())
			if strings.HasPrefix(n, "sort.") || strings.HasPrefix(n, "slices.Sort") {
				arg = 0
			} else if sc := call.Common().StaticCallee(); sc != nil && inCanopyRaw(sc) && origin(sc) != f {
				arg = sorterParam(p, sc, depth+1)
			}
			if arg < 0 || arg >= len(call.Common().Args) {
				continue
			}
			v := call.Common().Args[arg]
			for {
				if sl, ok := v.(*ssa.Slice); ok {
					v = sl.X
					continue
				}
				if mi, ok := v.(*ssa.MakeInterface); ok {
					v = mi.X
					continue
				}
				// a parameter captured by the comparator closure lives in a cell: the load of a cell stored once
				if u, ok := v.(*ssa.UnOp); ok && u.Op == token.MUL {
					if a, ok := u.X.(*ssa.Alloc); ok {
						var stored ssa.Value
						n := 0
						for _, ref := range *a.Referrers() {
							if st, ok := ref.(*ssa.Store); ok && st.Addr == a {
								stored = st.Val
								n++
							}
						}
						if n == 1 {
							v = stored
							continue
						}
					}
				}
				break
			}
			if pa, ok := v.(*ssa.Parameter); ok {
				res = paramIndex(pa)
			}
		}
	}
	return res
}

// containerBase strips address-of markers and trailing index expressions: the container a slice lives in.
func containerBase(path string) string {
	path = strings.TrimLeft(path, "&")
	for strings.HasSuffix(path, "]") {
		depth, cut := 0, -1
		for i := len(path) - 1; i >= 0; i-- {
			if path[i] == ']' {
				depth++
			} else if path[i] == '[' {
				depth--
				if depth == 0 {
					cut = i
					break
				}
			}
		}
		if cut < 0 {
			break
		}
		path = path[:cut]
	}
	return strings.TrimLeft(path, "&")
}

func keysOfBool(m map[string]bool) []string {
	var out []string
	for k := range m {
		out = append(out, k)
	}
	sort.Strings(out)
	return out
}

// fieldReadAnywhere: is the struct field loaded (or its address taken for anything but a store, or the whole struct
// copied / handed to a callee) anywhere in non-test canopy code? A field that is only ever stored to is a dead slot.
func (d *detSet) fieldReadAnywhere(fv *types.Var) bool {
	if d.fieldReads == nil {
		d.fieldReads = map[*types.Var]bool{}
		d.structEscapes = map[*types.Named]bool{}
		for _, f := range d.c.p.Funcs {
			if !inCanopy(f) {
				continue
			}
			for _, g := range withAnons(f) {
				instrs(g, func(in ssa.Instruction) {
					switch x := in.(type) {
					case *ssa.FieldAddr:
						w := fieldOfAddr(x)
						if w == nil {
							return
						}
						for _, ref := range *x.Referrers() {
							if st, ok := ref.(*ssa.Store); ok && st.Addr == x {
								continue
							}
							d.fieldReads[w] = true
						}
					case *ssa.Field:
						if st := derefStruct(x.X.Type()); st != nil && x.Field < st.NumFields() {
							d.fieldReads[st.Field(x.Field)] = true
						}
					}
				})
			}
		}
	}
	if d.fieldReads[fv] {
		return true
	}
	// the value of the enclosing struct must not travel as a whole (reflection, marshalling, comparison): accept only
	// unexported fields of unexported-or-exported canopy structs that are never converted to an interface
	if fv.Exported() {
		return true
	}
	return false
}

// keyedOnlyFn: a canopy function all of whose effects are keyed by its own parameters — map updates whose key is a
// parameter, calls of known keyed sinks or of effect-free functions, locking. Handing it the iteration variable of a map
// range is as order-insensitive as performing the map update in the loop body (a helper shared by several callers).
func (d *detSet) keyedOnlyFn(f *ssa.Function, sinks map[string]bool, depth int) bool {
	if f == nil || len(f.Blocks) == 0 || depth > 2 || !inCanopy(f) {
		return false
	}
	isParam := func(v ssa.Value) bool {
		for {
			switch x := v.(type) {
			case *ssa.Parameter:
				return true
			case *ssa.Field:
				v = x.X
			case *ssa.UnOp:
				v = x.X
			case *ssa.FieldAddr:
				v = x.X
			case *ssa.Alloc: // a by-value struct parameter spilled to a cell: accept if a parameter is stored into it
				for _, ref := range *x.Referrers() {
					if st, ok := ref.(*ssa.Store); ok && st.Addr == x {
						if _, ok := st.Val.(*ssa.Parameter); ok {
							return true
						}
					}
				}
				return false
			default:
				return false
			}
		}
	}
	ok := true
	instrs(f, func(in ssa.Instruction) {
		switch x := in.(type) {
		case *ssa.Store:
			if !localAddr(x.Addr) {
				ok = false
			}
		case *ssa.MapUpdate:
			if !isParam(x.Key) {
				ok = false
			}
		case *ssa.Send, *ssa.Go, *ssa.Panic:
			ok = false
		case ssa.CallInstruction:
			cc := x.Common()
			if _, isB := cc.Value.(*ssa.Builtin); isB {
				return
			}
			name := calleeName(cc)
			if strings.HasPrefix(name, "(*sync.") {
				return
			}
			if readOnlyInvoke(cc) || sinks[name] {
				return
			}
			if sc := cc.StaticCallee(); sc != nil && (d.effectFree(sc, 0) || d.keyedOnlyFn(sc, sinks, depth+1)) {
				return
			}
			ok = false
		}
	})
	return ok
}
