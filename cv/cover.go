package main

import (
	"go/ast"
	"go/token"
	"go/types"
	"sort"
	"strings"

	"golang.org/x/tools/go/ssa"
)

// COVER engine: field coverage / exhaustiveness on the typed syntax tree.

// protoFields returns the data fields of a (generated) struct: protobuf bookkeeping is excluded.
func protoFields(n *types.Named) []string {
	st, ok := n.Underlying().(*types.Struct)
	if !ok {
		return nil
	}
	var out []string
	for i := 0; i < st.NumFields(); i++ {
		f := st.Field(i)
		switch f.Name() {
		case "state", "sizeCache", "unknownFields":
			continue
		}
		out = append(out, f.Name())
	}
	return out
}

func allFields(n *types.Named) []string {
	st, ok := n.Underlying().(*types.Struct)
	if !ok {
		return nil
	}
	var out []string
	for i := 0; i < st.NumFields(); i++ {
		out = append(out, st.Field(i).Name())
	}
	return out
}

func namedOf(t types.Type) *types.Named {
	t = types.Unalias(t)
	if p, ok := t.(*types.Pointer); ok {
		t = types.Unalias(p.Elem())
	}
	n, _ := t.(*types.Named)
	return n
}

// compositeLits returns, for every composite literal of struct type `of` inside the function's
// syntax, the set of field names it sets.
func (p *Prog) compositeLits(f *ssa.Function, of *types.Named) []map[string]ast.Expr {
	var out []map[string]ast.Expr
	// a literal moved into a transparent helper (newfn.go) still belongs to f
	for _, g := range bodyFuncs(f, false) {
		if g != f {
			out = append(out, p.compositeLits1(g, of)...)
		}
	}
	return append(p.compositeLits1(f, of), out...)
}

func (p *Prog) compositeLits1(f *ssa.Function, of *types.Named) []map[string]ast.Expr {
	info := p.InfoFor(f)
	syn := f.Syntax()
	if info == nil || syn == nil {
		return nil
	}
	isOf := func(t types.Type) bool {
		nt := namedOf(t)
		return nt != nil && nt.Obj() == of.Obj()
	}
	litMap := func(cl *ast.CompositeLit) map[string]ast.Expr {
		m := map[string]ast.Expr{}
		st, _ := of.Underlying().(*types.Struct)
		for i, el := range cl.Elts {
			if kv, ok := el.(*ast.KeyValueExpr); ok {
				if id, ok := kv.Key.(*ast.Ident); ok {
					m[id.Name] = kv.Value
				}
			} else if st != nil && i < st.NumFields() {
				m[st.Field(i).Name()] = el
			}
		}
		return m
	}
	// a value of the type is built either by a composite literal or by new(T) / &T{} / var v T followed by
	// field-by-field assignments v.F = e; both forms yield one field -> expression map
	bound := map[types.Object]map[string]ast.Expr{} // variables under construction
	boundLit := map[*ast.CompositeLit]bool{}
	var order []types.Object
	bind := func(id *ast.Ident, rhs ast.Expr) {
		obj := info.ObjectOf(id)
		if obj == nil || !isOf(obj.Type()) {
			return
		}
		var m map[string]ast.Expr
		switch x := rhs.(type) {
		case nil:
			m = map[string]ast.Expr{} // var v T
		case *ast.CompositeLit:
			if tv, ok := info.Types[x]; ok && isOf(tv.Type) {
				m = litMap(x)
				boundLit[x] = true
			}
		case *ast.UnaryExpr:
			if cl, ok := x.X.(*ast.CompositeLit); ok && x.Op == token.AND {
				if tv, ok := info.Types[cl]; ok && isOf(tv.Type) {
					m = litMap(cl)
					boundLit[cl] = true
				}
			}
		case *ast.CallExpr:
			if fn, ok := x.Fun.(*ast.Ident); ok && fn.Name == "new" && len(x.Args) == 1 {
				if tv, ok := info.Types[x.Args[0]]; ok && isOf(tv.Type) {
					m = map[string]ast.Expr{}
				}
			}
		}
		if m != nil {
			if _, seen := bound[obj]; !seen {
				order = append(order, obj)
			}
			bound[obj] = m
		}
	}
	ast.Inspect(syn, func(n ast.Node) bool {
		switch x := n.(type) {
		case *ast.AssignStmt:
			if len(x.Lhs) == len(x.Rhs) {
				for i, l := range x.Lhs {
					if id, ok := l.(*ast.Ident); ok && x.Tok == token.DEFINE {
						bind(id, x.Rhs[i])
					}
				}
			}
		case *ast.ValueSpec:
			for i, id := range x.Names {
				if i < len(x.Values) {
					bind(id, x.Values[i])
				} else if len(x.Values) == 0 {
					bind(id, nil)
				}
			}
		}
		return true
	})
	// a field assignment belongs to the construction only when it is unconditional: a statement of the
	// very block that declares the variable, or an if/else of that block that assigns the field on every
	// branch. `if c { v.F = e }` leaves F unset on the other branch.
	fieldAssigned := map[types.Object]bool{}
	declBlock := map[types.Object]*ast.BlockStmt{}
	fieldOf := func(st ast.Stmt) map[types.Object]map[string]ast.Expr {
		as, ok := st.(*ast.AssignStmt)
		if !ok || len(as.Lhs) != len(as.Rhs) {
			return nil
		}
		var res map[types.Object]map[string]ast.Expr
		for i, l := range as.Lhs {
			se, ok := l.(*ast.SelectorExpr)
			if !ok {
				continue
			}
			id, ok := se.X.(*ast.Ident)
			if !ok {
				continue
			}
			obj := info.ObjectOf(id)
			if _, ok := bound[obj]; ok {
				if res == nil {
					res = map[types.Object]map[string]ast.Expr{}
				}
				if res[obj] == nil {
					res[obj] = map[string]ast.Expr{}
				}
				res[obj][se.Sel.Name] = as.Rhs[i]
			}
		}
		return res
	}
	// every(st): the field assignments made on every path through the statement
	var every func(st ast.Stmt) map[types.Object]map[string]ast.Expr
	everyList := func(list []ast.Stmt) map[types.Object]map[string]ast.Expr {
		res := map[types.Object]map[string]ast.Expr{}
		for _, st := range list {
			for obj, m := range every(st) {
				if res[obj] == nil {
					res[obj] = map[string]ast.Expr{}
				}
				for k, v := range m {
					res[obj][k] = v
				}
			}
		}
		return res
	}
	every = func(st ast.Stmt) map[types.Object]map[string]ast.Expr {
		switch x := st.(type) {
		case *ast.AssignStmt:
			return fieldOf(x)
		case *ast.BlockStmt:
			return everyList(x.List)
		case *ast.IfStmt:
			if x.Else == nil {
				return nil
			}
			a, b := everyList(x.Body.List), every(x.Else)
			res := map[types.Object]map[string]ast.Expr{}
			for obj, m := range a {
				for k, v := range m {
					if _, both := b[obj][k]; both {
						if res[obj] == nil {
							res[obj] = map[string]ast.Expr{}
						}
						res[obj][k] = v
					}
				}
			}
			return res
		}
		return nil
	}
	ast.Inspect(syn, func(n ast.Node) bool {
		blk, ok := n.(*ast.BlockStmt)
		if !ok {
			return true
		}
		for _, st := range blk.List {
			// declarations of this block
			switch x := st.(type) {
			case *ast.AssignStmt:
				if x.Tok == token.DEFINE {
					for _, l := range x.Lhs {
						if id, ok := l.(*ast.Ident); ok {
							if obj := info.ObjectOf(id); obj != nil {
								if _, isBound := bound[obj]; isBound && declBlock[obj] == nil {
									declBlock[obj] = blk
								}
							}
						}
					}
				}
			case *ast.DeclStmt:
				if gd, ok := x.Decl.(*ast.GenDecl); ok {
					for _, sp := range gd.Specs {
						if vs, ok := sp.(*ast.ValueSpec); ok {
							for _, id := range vs.Names {
								if obj := info.ObjectOf(id); obj != nil {
									if _, isBound := bound[obj]; isBound && declBlock[obj] == nil {
										declBlock[obj] = blk
									}
								}
							}
						}
					}
				}
			}
			for obj, m := range every(st) {
				if declBlock[obj] != blk {
					continue
				}
				for k, v := range m {
					bound[obj][k] = v
				}
				fieldAssigned[obj] = true
			}
		}
		return true
	})
	var out []map[string]ast.Expr
	ast.Inspect(syn, func(n ast.Node) bool {
		cl, ok := n.(*ast.CompositeLit)
		if !ok || boundLit[cl] {
			return true
		}
		if tv, ok := info.Types[cl]; ok && isOf(tv.Type) {
			out = append(out, litMap(cl))
		}
		return true
	})
	for _, obj := range order {
		m := bound[obj]
		// a variable only counts as a construction if something was put into it (a literal's fields or assignments)
		if len(m) > 0 || fieldAssigned[obj] {
			out = append(out, m)
		}
	}
	return out
}

// selectorsOn returns the set of fields of struct type `of` that the function's syntax reads or
// writes through a selector expression x.f or a getter x.GetF() whose x has type of / *of.
func (p *Prog) selectorsOn(f *ssa.Function, of *types.Named) map[string]int {
	info := p.InfoFor(f)
	syn := f.Syntax()
	out := map[string]int{}
	if info == nil || syn == nil {
		return out
	}
	fields := map[string]bool{}
	for _, n := range allFields(of) {
		fields[n] = true
	}
	ast.Inspect(syn, func(n ast.Node) bool {
		se, ok := n.(*ast.SelectorExpr)
		if !ok {
			return true
		}
		tv, ok := info.Types[se.X]
		if !ok {
			return true
		}
		nt := namedOf(tv.Type)
		if nt == nil || nt.Obj() != of.Obj() {
			return true
		}
		name := se.Sel.Name
		if fields[name] {
			out[name]++
		} else if strings.HasPrefix(name, "Get") && fields[strings.TrimPrefix(name, "Get")] {
			out[strings.TrimPrefix(name, "Get")]++
		}
		return true
	})
	return out
}

// coverCheck records one obligation per field of `of`: it must be in `have` or in `allowed` (with reason).
func (c *ctx) coverCheck(rule, what string, of *types.Named, fields []string, have map[string]bool, allowed map[string]string, pos string) {
	sort.Strings(fields)
	for _, f := range fields {
		construct := rule + "/" + what + "/" + f
		if have[f] {
			c.r.OK(construct, pos, "field is covered")
		} else if reason, ok := allowed[f]; ok {
			c.r.OK(construct, pos, "field is deliberately not covered: "+reason)
		} else {
			c.r.Bad(construct, pos, "field "+of.Obj().Name()+"."+f+" is not covered by "+what+" and is not in the table of justified omissions")
		}
	}
	// an allowed omission that is in fact covered is fine; an allowed entry naming a field that no longer exists is stale but harmless
}

func keysOf(m map[string]ast.Expr) map[string]bool {
	out := map[string]bool{}
	for k := range m {
		out[k] = true
	}
	return out
}

func boolKeys(m map[string]int) map[string]bool {
	out := map[string]bool{}
	for k := range m {
		out[k] = true
	}
	return out
}

// fieldsStoredNil: fields of the receiver-typed struct that the function sets to nil (SSA stores of a nil constant).
func fieldsStoredNil(f *ssa.Function, of *types.Named) map[string]int {
	out := map[string]int{}
	// function literals (a deferred restore) and transparent helpers belong to the function
	for _, g := range bodyFuncs(f, true) {
		instrs(g, func(in ssa.Instruction) {
			fv, base, val := storeField(in)
			if fv == nil || !isNilConst(val) {
				return
			}
			if nt := namedOf(base.Type()); nt != nil && nt.Obj() == of.Obj() {
				out[fv.Name()]++
			}
		})
	}
	return out
}

// fieldsStoredNonNil: fields of the struct stored with a non-constant value (restores).
func fieldsStoredNonNil(f *ssa.Function, of *types.Named) map[string]int {
	out := map[string]int{}
	// function literals (a deferred restore) and transparent helpers belong to the function
	for _, g := range bodyFuncs(f, true) {
		instrs(g, func(in ssa.Instruction) {
			fv, base, val := storeField(in)
			if fv == nil || isNilConst(val) {
				return
			}
			if nt := namedOf(base.Type()); nt != nil && nt.Obj() == of.Obj() {
				out[fv.Name()]++
			}
		})
	}
	return out
}
