package main

import (
	"go/ast"
	"go/types"
	"sort"
	"strings"

	"golang.org/x/tools/go/ssa"
)

// COVER engine: field coverage / exhaustiveness on the typed syntax tree.

// protoFields returns the data fields of a (generated) struct: protobuf bookkeeping is excluded.
func protoFields(n *types.Named) []string {
	st, ok := n.Underlying().(*types.Struct)
	if !ok {
		return nil
	}
	var out []string
	for i := 0; i < st.NumFields(); i++ {
		f := st.Field(i)
		switch f.Name() {
		case "state", "sizeCache", "unknownFields":
			continue
		}
		out = append(out, f.Name())
	}
	return out
}

func allFields(n *types.Named) []string {
	st, ok := n.Underlying().(*types.Struct)
	if !ok {
		return nil
	}
	var out []string
	for i := 0; i < st.NumFields(); i++ {
		out = append(out, st.Field(i).Name())
	}
	return out
}

func namedOf(t types.Type) *types.Named {
	t = types.Unalias(t)
	if p, ok := t.(*types.Pointer); ok {
		t = types.Unalias(p.Elem())
	}
	n, _ := t.(*types.Named)
	return n
}

// compositeLits returns, for every composite literal of struct type `of` inside the function's
// syntax, the set of field names it sets.
func (p *Prog) compositeLits(f *ssa.Function, of *types.Named) []map[string]ast.Expr {
	var out []map[string]ast.Expr
	// a literal moved into a transparent helper (newfn.go) still belongs to f
	for _, g := range bodyFuncs(f, false) {
		if g != f {
			out = append(out, p.compositeLits1(g, of)...)
		}
	}
	return append(p.compositeLits1(f, of), out...)
}

func (p *Prog) compositeLits1(f *ssa.Function, of *types.Named) []map[string]ast.Expr {
	info := p.InfoFor(f)
	syn := f.Syntax()
	if info == nil || syn == nil {
		return nil
	}
	var out []map[string]ast.Expr
	ast.Inspect(syn, func(n ast.Node) bool {
		cl, ok := n.(*ast.CompositeLit)
		if !ok {
			return true
		}
		tv, ok := info.Types[cl]
		if !ok {
			return true
		}
		nt := namedOf(tv.Type)
		if nt == nil || nt.Obj() != of.Obj() {
			return true
		}
		m := map[string]ast.Expr{}
		st, _ := nt.Underlying().(*types.Struct)
		for i, el := range cl.Elts {
			if kv, ok := el.(*ast.KeyValueExpr); ok {
				if id, ok := kv.Key.(*ast.Ident); ok {
					m[id.Name] = kv.Value
				}
			} else if st != nil && i < st.NumFields() {
				m[st.Field(i).Name()] = el
			}
		}
		out = append(out, m)
		return true
	})
	return out
}

// selectorsOn returns the set of fields of struct type `of` that the function's syntax reads or
// writes through a selector expression x.f or a getter x.GetF() whose x has type of / *of.
func (p *Prog) selectorsOn(f *ssa.Function, of *types.Named) map[string]int {
	info := p.InfoFor(f)
	syn := f.Syntax()
	out := map[string]int{}
	if info == nil || syn == nil {
		return out
	}
	fields := map[string]bool{}
	for _, n := range allFields(of) {
		fields[n] = true
	}
	ast.Inspect(syn, func(n ast.Node) bool {
		se, ok := n.(*ast.SelectorExpr)
		if !ok {
			return true
		}
		tv, ok := info.Types[se.X]
		if !ok {
			return true
		}
		nt := namedOf(tv.Type)
		if nt == nil || nt.Obj() != of.Obj() {
			return true
		}
		name := se.Sel.Name
		if fields[name] {
			out[name]++
		} else if strings.HasPrefix(name, "Get") && fields[strings.TrimPrefix(name, "Get")] {
			out[strings.TrimPrefix(name, "Get")]++
		}
		return true
	})
	return out
}

// coverCheck records one obligation per field of `of`: it must be in `have` or in `allowed` (with reason).
func (c *ctx) coverCheck(rule, what string, of *types.Named, fields []string, have map[string]bool, allowed map[string]string, pos string) {
	sort.Strings(fields)
	for _, f := range fields {
		construct := rule + "/" + what + "/" + f
		if have[f] {
			c.r.OK(construct, pos, "field is covered")
		} else if reason, ok := allowed[f]; ok {
			c.r.OK(construct, pos, "field is deliberately not covered: "+reason)
		} else {
			c.r.Bad(construct, pos, "field "+of.Obj().Name()+"."+f+" is not covered by "+what+" and is not in the table of justified omissions")
		}
	}
	// an allowed omission that is in fact covered is fine; an allowed entry naming a field that no longer exists is stale but harmless
}

func keysOf(m map[string]ast.Expr) map[string]bool {
	out := map[string]bool{}
	for k := range m {
		out[k] = true
	}
	return out
}

func boolKeys(m map[string]int) map[string]bool {
	out := map[string]bool{}
	for k := range m {
		out[k] = true
	}
	return out
}

// fieldsStoredNil: fields of the receiver-typed struct that the function sets to nil (SSA stores of a nil constant).
func fieldsStoredNil(f *ssa.Function, of *types.Named) map[string]int {
	out := map[string]int{}
	// function literals (a deferred restore) and transparent helpers belong to the function
	for _, g := range bodyFuncs(f, true) {
		instrs(g, func(in ssa.Instruction) {
			fv, base, val := storeField(in)
			if fv == nil || !isNilConst(val) {
				return
			}
			if nt := namedOf(base.Type()); nt != nil && nt.Obj() == of.Obj() {
				out[fv.Name()]++
			}
		})
	}
	return out
}

// fieldsStoredNonNil: fields of the struct stored with a non-constant value (restores).
func fieldsStoredNonNil(f *ssa.Function, of *types.Named) map[string]int {
	out := map[string]int{}
	// function literals (a deferred restore) and transparent helpers belong to the function
	for _, g := range bodyFuncs(f, true) {
		instrs(g, func(in ssa.Instruction) {
			fv, base, val := storeField(in)
			if fv == nil || isNilConst(val) {
				return
			}
			if nt := namedOf(base.Type()); nt != nil && nt.Obj() == of.Obj() {
				out[fv.Name()]++
			}
		})
	}
	return out
}
