package main

import (
	"go/ast"
	"go/token"
	"go/types"
	"strings"

	"golang.org/x/tools/go/ssa"
)

func init() { register("C06", c06) }

// C06 — Replay protection.
func c06(c *ctx) {
	r := c.r
	r.Explain = "Static decision of the replay filter's shape: (R1) the filter is on every execution path and the identity it records is the hash of the very bytes executed; (R2) path rule inside CheckReplay — success only after network and chain equality, the hash lookup (not-found edge) and the height window, each with exactly the exemption the code documents; nonce floor for RLP.V2; " +
		"(R3) same-block de-duplication dominates execution; (R4) the index writer and the replay reader use the same key function and the same hash; (R5) only the canonical encoding of a transaction is accepted, so the raw-byte hash is a function of the signed content (public-key/signature encodings excepted: known finding)."
	r.NotCovered = []string{"cross-chain replay beyond the id comparisons (key reuse across chains)", "pruning-horizon arithmetic (BlockAcceptanceRange vs. indexer retention)", "hash collision resistance"}
	r.Trusted = []string{"crypto.Hash (SHA-256) collision resistance", "protobuf deterministic marshalling is canonical for lib.Transaction"}

	checkTx := c.fn("fsm.(*StateMachine).CheckTx")
	checkReplay := c.fn("fsm.(*StateMachine).CheckReplay")
	checkSig := c.fn("fsm.(*StateMachine).CheckSignature")
	applyTx := c.fn("fsm.(*StateMachine).ApplyTransaction")
	applyTxs := c.fn("fsm.(*StateMachine).ApplyTransactions")
	hashString := c.fn("lib/crypto.HashString")
	addOK := c.fn("lib.(*ApplyBlockResults).Add")
	if checkTx == nil || checkReplay == nil || checkSig == nil || applyTx == nil || applyTxs == nil || hashString == nil || addOK == nil {
		return
	}

	// ------------------------------------------------------------------ R1
	r.Rule("R1", "MPT+FLOW", "CheckReplay's ok-edge dominates signature checking and success in CheckTx; ApplyTransaction forwards its hash; the hash is HashString of the bytes that are executed and recorded", 7)
	c.mpt(mptSpec{rule: "R1", fn: checkTx, events: evSet{"CheckReplay": {checkReplay}},
		target: tgtAny(tgtCall("CheckSignature", checkSig), tgtReturnVal("success-return", 0, true)),
		reqs:   func(string) []string { return []string{"CheckReplay.ok"} }, minTarget: 2})
	for _, cs := range callsIn(checkTx, false, checkReplay) {
		p0, p1 := c.p.path(argOf(cs, 0)), c.p.path(argOf(cs, 1))
		r.Check(strings.HasPrefix(p0, "&new(Transaction)") || strings.HasPrefix(p0, "new(Transaction)"), "R1/CheckTx/replay-tx", c.p.Pos(cs.Pos()), "CheckReplay examines the decoded transaction "+p0, "CheckReplay is given "+p0+", not the transaction decoded from the bytes")
		r.Check(p1 == "$2", "R1/CheckTx/replay-hash", c.p.Pos(cs.Pos()), "CheckReplay receives CheckTx's txHash parameter", "CheckReplay receives "+p1+" instead of the txHash parameter: the hash lookup would use another identity")
	}
	for _, cs := range callsIn(applyTx, false, checkTx) {
		ok := c.p.path(argOf(cs, 0)) == "$2" && c.p.path(argOf(cs, 1)) == "$3"
		r.Check(ok, "R1/ApplyTransaction/forward", c.p.Pos(cs.Pos()), "CheckTx(transaction, txHash, …) forwarded unchanged", "ApplyTransaction does not forward its (transaction, txHash) parameters to CheckTx unchanged")
	}
	for _, cs := range callsIn(applyTxs, false, applyTx) {
		txp, hp := c.p.path(argOf(cs, 1)), c.p.path(argOf(cs, 2))
		r.Check(hp == "lib/crypto.HashString("+txp+")", "R1/ApplyTransactions/hash-of-executed-bytes", c.p.Pos(cs.Pos()), "txHash = HashString(tx) of the executed tx", "ApplyTransaction is given hash "+hp+" for transaction "+txp+": the replay identity is not the hash of the executed bytes")
		for _, ad := range callsIn(applyTxs, false, addOK) {
			ap := c.p.path(argOf(ad, 0))
			r.Check(ap == txp, "R1/ApplyTransactions/recorded-bytes", c.p.Pos(ad.Pos()), "the bytes recorded in the block are the bytes executed", "r.Add records "+ap+" but "+txp+" was executed")
		}
	}
	// the result indexed under the hash carries that hash
	txResT := c.p.Named("lib", "TxResult")
	if txResT != nil {
		lits := c.p.compositeLits(applyTx, txResT)
		okLit := false
		for _, l := range lits {
			if e, ok := l["TxHash"]; ok {
				if id, isID := e.(interface{ String() string }); isID && id.String() == "txHash" {
					okLit = true
				}
			}
		}
		// resolve through SSA rather than identifier text
		okLit = false
		instrs(applyTx, func(in ssa.Instruction) {
			if fv, base, val := storeField(in); fv != nil && fv.Name() == "TxHash" {
				if nt := namedOf(base.Type()); nt != nil && nt.Obj() == txResT.Obj() && c.p.path(val) == "$3" {
					okLit = true
				}
			}
		})
		r.Check(okLit, "R1/ApplyTransaction/result-hash", c.p.Pos(applyTx.Pos()), "TxResult.TxHash = txHash parameter", "the TxResult built by ApplyTransaction does not carry the txHash parameter: the index would be written under another identity")
	}

	// ------------------------------------------------------------------ R2
	r.Rule("R2", "MPT", "CheckReplay returns nil only after network and chain equality, and — unless height<2 — the hash lookup on its not-found edge (when a hash is given) and — unless RLP.V2 — the created-height window; RLP.V2 is guarded by the account nonce floor", 3)
	getTxByHashM := c.p.IfaceMethod("lib", "RIndexerI", "GetTxByHash")
	r.Anchor(getTxByHashM != nil, "lib.RIndexerI.GetTxByHash")
	var rlpv2 types.Object
	if fp := c.p.pkg("fsm"); fp != nil {
		rlpv2 = fp.Types.Scope().Lookup("RLPV2Indicator")
	}
	r.Anchor(rlpv2 != nil, "fsm.RLPV2Indicator")
	if getTxByHashM != nil && rlpv2 != nil {
		rlpConst := ""
		if cst, ok := rlpv2.(*types.Const); ok {
			rlpConst = cst.Val().ExactString()
		}
		c.mpt(mptSpec{
			rule: "R2", fn: checkReplay,
			events:  evSet{},
			extraEv: invokeEvent(map[*types.Func]string{getTxByHashM: "GetTxByHash"}),
			atom: cmpAtoms(c.p,
				cmpSpec{"network==", token.EQL, pathIs("$0.NetworkID"), pathIs("$1.NetworkId")},
				cmpSpec{"chain==", token.EQL, pathIs("$0.Config.ChainId"), pathIs("$1.ChainId")},
				cmpSpec{"height<2", token.LSS, pathIs("$0.Height()"), pathIs("2")},
				cmpSpec{"hashGiven", token.NEQ, pathIs("$2"), pathIs(`""`)},
				cmpSpec{"found!=nil", token.NEQ, pathHasSuffix(".GetTxByHash(lib.StringToBytes($2)#0)#0"), pathIs("nil")},
				cmpSpec{"foundHash==", token.EQL, pathHasSuffix(".GetTxByHash(lib.StringToBytes($2)#0)#0.TxHash"), pathIs("$2")},
				cmpSpec{"memo==RLPV2", token.EQL, pathIs("$1.Memo"), pathIs(rlpConst)},
				cmpSpec{"created>max", token.GTR, pathIs("$1.CreatedHeight"), pathContains("BlockAcceptanceRange")},
				cmpSpec{"created>max", token.GTR, pathIs("$1.CreatedHeight"), pathContains("$0.Height()")},
				cmpSpec{"created<min", token.LSS, pathIs("$1.CreatedHeight"), pathAny()},
			),
			target: tgtOkReturn("ok-return"),
			reqs: func(string) []string {
				return []string{
					"@network===T", "@chain===T",
					"@height<2=T|@hashGiven=F|GetTxByHash.ok",
					"@height<2=T|@hashGiven=F|@found!=nil=F|@foundHash===F",
					"@height<2=T|@memo==RLPV2=T|@created>max=F",
					"@height<2=T|@memo==RLPV2=T|@created<min=F",
				}
			},
			minTarget: 3,
		})
	}
	// nonce floor for RLP.V2: CheckTx rejects nonce below the account's; ApplyTransaction advances it past the used one
	if rlpv2 != nil {
		rlpConst := rlpv2.(*types.Const).Val().ExactString()
		getAccount := c.fn("fsm.(*StateMachine).GetAccount")
		setAccount := c.fn("fsm.(*StateMachine).SetAccount")
		if getAccount != nil && setAccount != nil {
			c.mpt(mptSpec{
				rule: "R2", fn: checkTx,
				events: evSet{"GetAccount": {getAccount}},
				atom: cmpAtoms(c.p,
					cmpSpec{"memo==RLPV2", token.EQL, pathHasSuffix(".Memo"), pathIs(rlpConst)},
					cmpSpec{"nonce<floor", token.LSS, pathHasSuffix(".Nonce"), pathContains(".GetAccount(")},
				),
				target: tgtReturnVal("success-return", 0, true),
				reqs: func(string) []string {
					return []string{"@memo==RLPV2=F|GetAccount.ok", "@memo==RLPV2=F|@nonce<floor=F"}
				},
				minTarget: 1,
			})
			c.mpt(mptSpec{
				rule: "R2", fn: applyTx,
				events:    evSet{"SetAccount": {setAccount}},
				atom:      cmpAtoms(c.p, cmpSpec{"memo==RLPV2", token.EQL, pathHasSuffix(".tx.Memo"), pathIs(rlpConst)}),
				target:    tgtReturnVal("success-return", 0, true),
				reqs:      func(string) []string { return []string{"@memo==RLPV2=F|SetAccount.ok"} },
				minTarget: 1,
			})
			// the nonce written is tx.Nonce + 1
			okNonce := false
			instrs(applyTx, func(in ssa.Instruction) {
				if fv, _, val := storeField(in); fv != nil && fv.Name() == "Nonce" {
					p := c.p.path(val)
					if strings.HasSuffix(p, ".tx.Nonce + 1)") {
						okNonce = true
					}
				}
			})
			r.Check(okNonce, "R2/ApplyTransaction/nonce-advance", c.p.Pos(applyTx.Pos()), "account.Nonce = tx.Nonce + 1", "ApplyTransaction no longer stores tx.Nonce+1 as the account's nonce floor: an RLP.V2 transaction could be replayed")
		}
	}

	// ------------------------------------------------------------------ R3
	r.Rule("R3", "MPT", "same-block duplicates: DeDuplicator.Found(hash)==false dominates ApplyTransaction; the found edge aborts the block", 2)
	var found *ssa.Function
	for _, cs := range allCalls(applyTxs) {
		if sc := cs.Common().StaticCallee(); sc != nil && origin(sc).Name() == "Found" && sc.Signature.Recv() != nil && strings.Contains(sc.Signature.Recv().Type().String(), "lib.DeDuplicator") {
			found = origin(sc)
		}
	}
	if r.Anchor(found != nil, "lib.(*DeDuplicator).Found") {
		c.mpt(mptSpec{rule: "R3", fn: applyTxs, events: evSet{"Found": {found}}, target: tgtCall("ApplyTransaction", applyTx),
			reqs: func(string) []string { return []string{"Found#0=F"} }, minTarget: 1})
		for _, cs := range callsIn(applyTxs, false, found) {
			fp := c.p.path(argOf(cs, 0))
			for _, at := range callsIn(applyTxs, false, applyTx) {
				hp := c.p.path(argOf(at, 2))
				r.Check(fp == hp, "R3/ApplyTransactions/dedup-key", c.p.Pos(cs.Pos()), "de-duplication key is the replay identity", "same-block de-duplication is keyed by "+fp+" but the replay identity is "+hp)
			}
		}
	}

	// ------------------------------------------------------------------ R4
	r.Rule("R4", "AGREE", "index writer and replay reader agree: both go through Indexer.txHashKey; the hash written is TxResult.TxHash, the hash read is CheckReplay's txHash; the Ethereum alias is derived the same way on both sides", 5)
	txHashKey := c.fn("store.(*Indexer).txHashKey")
	indexTxByHash := c.fn("store.(*Indexer).indexTxByHash")
	getTxByHash := c.fn("store.(*Indexer).GetTxByHash")
	indexedTxHashes := c.fn("store.indexedTxHashes")
	indexTx := c.fn("store.(*Indexer).IndexTx")
	ethTxHash := c.fn("store.ethTxHash")
	ethFromRaw := c.fn("fsm.ethereumTxHashFromRawBytes")
	if txHashKey != nil && indexTxByHash != nil && getTxByHash != nil && indexedTxHashes != nil && indexTx != nil && ethTxHash != nil && ethFromRaw != nil {
		w := callsIn(indexTxByHash, false, txHashKey)
		r.Check(len(w) == 1 && c.p.path(argOf(w[0], 0)) == "$1", "R4/writer-key", c.p.Pos(indexTxByHash.Pos()), "indexTxByHash writes under txHashKey(hash)", "indexTxByHash no longer writes under txHashKey(hash)")
		rd := callsIn(getTxByHash, false, txHashKey)
		r.Check(len(rd) == 1 && c.p.path(argOf(rd[0], 0)) == "$1", "R4/reader-key", c.p.Pos(getTxByHash.Pos()), "GetTxByHash reads txHashKey(hash)", "GetTxByHash no longer reads under txHashKey(hash)")
		// IndexTx indexes every hash returned by indexedTxHashes, whose first element is the result's TxHash
		okFirst := false
		instrs(indexedTxHashes, func(in ssa.Instruction) {
			if cc := callCommon(in); cc != nil && strings.HasSuffix(calleeName(cc), "lib.StringToBytes") {
				if p := c.p.path(cc.Args[0]); p == "$0.GetTxHash()" || p == "$0.TxHash" {
					okFirst = true
				}
			}
		})
		r.Check(okFirst, "R4/written-hash", c.p.Pos(indexedTxHashes.Pos()), "primary index hash = StringToBytes(result.TxHash)", "indexedTxHashes no longer derives the primary hash from result.TxHash")
		// either the primary hash and then a loop over the aliases (two call sites), or one loop over the whole list: the
		// single call site then takes an element selected by a loop variable
		idxCalls := callsIn(indexTx, false, indexTxByHash)
		allInOneLoop := false
		if len(idxCalls) == 1 {
			hp := c.p.path(argOf(idxCalls[0], 0))
			allInOneLoop = strings.Contains(hp, "indexedTxHashes(") && strings.Contains(hp, "loopvar")
		}
		r.Check(len(callsIn(indexTx, false, indexedTxHashes)) == 1 && (len(idxCalls) >= 2 || allInOneLoop), "R4/IndexTx/all-hashes", c.p.Pos(indexTx.Pos()), "IndexTx indexes the primary hash and every alias", "IndexTx no longer indexes every hash returned by indexedTxHashes")
		// eth alias: both sides decode tx.Signature.Signature with UnmarshalBinary and take Hash()
		for _, f := range []*ssa.Function{ethTxHash, ethFromRaw} {
			hasUB, hasHash := false, false
			instrs(f, func(in ssa.Instruction) {
				if cc := callCommon(in); cc != nil {
					n := calleeName(cc)
					if strings.HasSuffix(n, "types.Transaction).UnmarshalBinary") {
						hasUB = true
					}
					if strings.HasSuffix(n, "types.Transaction).Hash") {
						hasHash = true
					}
				}
			})
			r.Check(hasUB && hasHash, "R4/eth-alias/"+fnName(f), c.p.Pos(f.Pos()), "derives the alias as UnmarshalBinary(sig).Hash()", fnName(f)+" no longer derives the Ethereum alias hash as types.Transaction.UnmarshalBinary(...).Hash(): writer and reader of the alias would disagree")
		}
		// reader side of the alias in CheckReplay uses tx.Signature.Signature, writer side result.Transaction
		for _, cs := range callsIn(checkReplay, false, ethFromRaw) {
			p := c.p.path(argOf(cs, 0))
			r.Check(p == "$1.Signature.Signature", "R4/eth-alias/reader-input", c.p.Pos(cs.Pos()), "alias computed from tx.Signature.Signature", "CheckReplay computes the Ethereum alias from "+p)
		}
	}

	// ------------------------------------------------------------------ R5
	r.Rule("R5", "MPT+FLOW", "identity is a function of the signed content: CheckTx succeeds only if the raw bytes equal the canonical re-marshalling of the decoded transaction", 2)
	bytesEqual := lookupStd(c.p, "bytes", "Equal")
	marshal := c.fn("lib.Marshal")
	if bytesEqual != nil && marshal != nil {
		// find the canonical comparison: bytes.Equal(lib.Marshal(<decoded tx>)#0, $1)
		var canon ssa.CallInstruction
		for _, cs := range callsIn(checkTx, false, bytesEqual) {
			a, b := c.p.path(cs.Common().Args[0]), c.p.path(cs.Common().Args[1])
			isM := func(s string) bool {
				return strings.HasPrefix(s, "lib.Marshal(&new(Transaction)") && strings.HasSuffix(s, "#0")
			}
			if (isM(a) && b == "$1") || (isM(b) && a == "$1") {
				canon = cs
			}
		}
		if canon == nil {
			r.Bad("R5/CheckTx/canonical-form", c.p.Pos(checkTx.Pos()), "CheckTx does not compare the raw transaction bytes with the canonical re-marshalling of the decoded transaction (bytes.Equal(lib.Marshal(tx), transaction)): another encoding of the same signed content has a fresh hash, passes CheckReplay and executes again")
		} else {
			r.OK("R5/CheckTx/canonical-form", c.p.Pos(canon.Pos()), "bytes.Equal(lib.Marshal(tx), transaction) is present")
			c.mpt(mptSpec{
				rule: "R5", fn: checkTx,
				events: evSet{"Marshal": {marshal}},
				extraEv: func(in ssa.Instruction) string {
					if in == canon.(ssa.Instruction) {
						return "canonicalEqual"
					}
					return ""
				},
				target:    tgtReturnVal("success-return", 0, true),
				reqs:      func(string) []string { return []string{"Marshal.ok", "canonicalEqual#0=T"} },
				minTarget: 1,
			})
		}
	}
	// the identity must not depend on content the signature does not cover (F1b)
	txT := c.p.Named("lib", "Transaction")
	getSignBytes := c.fn("lib.(*Transaction).GetSignBytes")
	if txT != nil && getSignBytes != nil {
		rawHash := false
		for _, cs := range callsIn(applyTxs, false, applyTx) {
			if c.p.path(argOf(cs, 2)) == "lib/crypto.HashString("+c.p.path(argOf(cs, 1))+")" {
				rawHash = true
			}
		}
		unsigned := []string{}
		for _, l := range c.p.compositeLits(getSignBytes, txT) {
			for _, f := range protoFields(txT) {
				e, set := l[f]
				if id, isNil := e.(*ast.Ident); !set || (isNil && id.Name == "nil") {
					unsigned = append(unsigned, f)
				}
			}
		}
		if rawHash && len(unsigned) > 0 {
			r.Bad("R5/identity/unsigned-fields-in-identity", c.p.Pos(applyTxs.Pos()), "the replay identity is the hash of the raw bytes, which include {"+strings.Join(unsigned, ",")+"}, fields the signature does not cover: an equivalent public-key encoding or a malleated signature gives the same signed content a fresh identity")
		} else {
			r.OK("R5/identity/unsigned-fields-in-identity", c.p.Pos(applyTxs.Pos()), "identity does not depend on unsigned fields")
		}
	}

	// ------------------------------------------------------------------ R6
	// the account nonce is the replay floor of nonce-backed transactions: a rewrite of the record must not drop it
	c.ruleRecordRebuiltWhole("R6", "fsm", "Account", map[string]string{}, 0)
}
