package main

import (
	"fmt"
	"go/ast"
	"go/types"
	"sort"
	"strings"
)

// ruleRecordRebuiltWhole (C12.R7 for Validator, C06.R6 for Account): a state record that is rebuilt from an existing
// record of the same type — a composite literal some of whose fields are copied from `old.F` — and then written back
// replaces the stored record. Every field the literal leaves out is reset to zero in state: a paused validator loses
// MaxPausedHeight while its paused marker stays (marker without record state), an account loses its nonce floor (every
// consumed nonce becomes valid again). The literal must therefore carry every data field of the type; omissions are a
// reasoned table.
func (c *ctx) ruleRecordRebuiltWhole(R, pkg, typ string, omit map[string]string, floor int) {
	r := c.r
	r.Rule(R, "COVER", fmt.Sprintf("a %s.%s rebuilt from an existing record keeps every field: each composite literal of the type, in non-test code of package %s, that copies at least one field from another %s value sets all data fields of the type (omissions: reasoned table)", pkg, typ, pkg, typ), floor)
	T := c.p.Named(pkg, typ)
	if !r.Anchor(T != nil, pkg+"."+typ) {
		return
	}
	fields := protoFields(T)
	n := 0
	for _, f := range c.p.Funcs {
		if f.Parent() != nil || !inCanopyRaw(f) || pkgShort(f) != pkg || isTestFile(c.p, f.Pos()) || f.Syntax() == nil {
			continue
		}
		if strings.HasSuffix(c.p.Fset.Position(f.Pos()).Filename, ".pb.go") {
			continue
		}
		info := c.p.InfoFor(f)
		if info == nil {
			continue
		}
		for li, lit := range c.p.compositeLits1(f, T) {
			// copied from an existing record of the same type?
			from := ""
			for _, e := range lit {
				ast.Inspect(e, func(nd ast.Node) bool {
					sel, ok := nd.(*ast.SelectorExpr)
					if !ok {
						return true
					}
					if tv, ok := info.Types[sel.X]; ok {
						if nt := namedOf(tv.Type); nt != nil && nt.Obj() == T.Obj() {
							from = types.ExprString(sel.X)
						}
					}
					return true
				})
			}
			if from == "" {
				continue
			}
			n++
			var missing []string
			for _, fl := range fields {
				if _, ok := lit[fl]; ok {
					continue
				}
				if _, ok := omit[fnNameRaw(f)+"/"+fl]; ok {
					continue
				}
				missing = append(missing, fl)
			}
			sort.Strings(missing)
			key := fmt.Sprintf("%s/%s/literal", R, fnName(f))
			if li > 0 {
				key = fmt.Sprintf("%s#%d", key, li+1)
			}
			r.Check(len(missing) == 0, key, c.p.Pos(f.Pos()), fmt.Sprintf("%s rebuilt from %s with all %d fields", typ, from, len(fields)), fmt.Sprintf("%s rebuilds a %s from %s but leaves out {%s}: written back, the stored record loses those values while the markers / indexes that depend on them stay", fnName(f), typ, from, strings.Join(missing, ", ")))
		}
	}
	r.Analysed["rebuilt_"+strings.ToLower(typ)+"_literals"] = n
}
