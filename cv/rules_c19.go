package main

import (
	"fmt"
	"go/ast"
	"go/token"
	"go/types"
	"sort"
	"strings"

	"golang.org/x/tools/go/ssa"
)

func init() { register("C19", c19) }

// byteSlicePrefixVars returns the package-level `name = []byte{N}` variables of a package file set: name -> N.
func (p *Prog) byteSlicePrefixVars(short string, filter func(name string) bool) map[string]string {
	out := map[string]string{}
	pk := p.pkg(short)
	if pk == nil {
		return out
	}
	for _, file := range pk.Syntax {
		for _, decl := range file.Decls {
			gd, ok := decl.(*ast.GenDecl)
			if !ok {
				continue
			}
			for _, spec := range gd.Specs {
				vs, ok := spec.(*ast.ValueSpec)
				if !ok {
					continue
				}
				for i, nm := range vs.Names {
					if i >= len(vs.Values) || !filter(nm.Name) {
						continue
					}
					cl, ok := vs.Values[i].(*ast.CompositeLit)
					if !ok || len(cl.Elts) != 1 {
						continue
					}
					if tv, ok := pk.TypesInfo.Types[cl.Elts[0]]; ok && tv.Value != nil {
						out[nm.Name] = tv.Value.ExactString()
					}
				}
			}
		}
	}
	return out
}

// C19 — Unambiguous signed digests and store keys (injectivity scaffolding only).
func c19(c *ctx) {
	r := c.r
	r.Explain = "Scaffolding of injectivity, decided structurally: (R1) sign bytes cover the content — transaction (all fields but the signature), certificate (all but Results/Block/Signature, bound by hashes) and consensus message (three forms; the proposer form omits RcBuildHeight and Timestamp: known finding F5); identity keys of evidence and partial certificates are the full marshalling of the object; " +
		"(R2) key-prefix tables are pairwise distinct (fsm state prefixes, indexer prefixes, top-level store prefixes); (R3) every composite key is built through the length-prefix joiner; (R4) the critical-message decoder lists agree, contain Block/Transaction/QuorumCertificate, and raw protobuf decoders are used only at the audited sites."
	r.NotCovered = []string{"segment length <= 255 (JoinLenPrefix truncates len to one byte: needs value ranges of message fields)", "'never panics or hangs' — no sound panic-freedom analysis is available (nilaway is unsound; explicit-panic reachability over the call graph reports infeasible paths)", "non-injective BatchTuple.Key concatenation for the signature cache (observed, value-level)", "collision resistance of the hash"}
	r.Trusted = []string{"protobuf deterministic marshalling is injective on message values"}

	// ------------------------------------------------------------------ R1
	r.Rule("R1", "COVER", "sign-bytes coverage: transaction, certificate and the three forms of the consensus message; identity keys of evidence items and partial certificates are the marshalled object", 25)
	// transaction
	txT := c.p.Named("lib", "Transaction")
	getSignBytes := c.fn("lib.(*Transaction).GetSignBytes")
	if txT != nil && getSignBytes != nil {
		lits := c.p.compositeLits(getSignBytes, txT)
		if len(lits) == 1 {
			have := map[string]bool{}
			for k, v := range lits[0] {
				if id, ok := v.(*ast.Ident); ok && id.Name == "nil" {
					continue
				}
				have[k] = true
			}
			c.coverCheck("R1", "Transaction.GetSignBytes", txT, protoFields(txT), have, map[string]string{"Signature": "is the signature itself"}, c.p.Pos(getSignBytes.Pos()))
		} else {
			r.Unk("R1/Transaction.GetSignBytes/literal", c.p.Pos(getSignBytes.Pos()), fmt.Sprintf("expected one Transaction literal, found %d", len(lits)))
		}
	}
	// certificate (non-election form): fields set to nil before marshalling
	qcT := c.p.Named("lib", "QuorumCertificate")
	qcSignBytes := c.fn("lib.(*QuorumCertificate).SignBytes")
	if qcT != nil && qcSignBytes != nil {
		nilled := fieldsStoredNil(qcSignBytes, qcT)
		have := map[string]bool{}
		for _, f := range protoFields(qcT) {
			if nilled[f] == 0 {
				have[f] = true
			}
		}
		c.coverCheck("R1", "QuorumCertificate.SignBytes", qcT, protoFields(qcT), have, map[string]string{"Results": "bound by ResultsHash", "Block": "bound by BlockHash", "Signature": "is the signature itself"}, c.p.Pos(qcSignBytes.Pos()))
	}
	// consensus message
	msgT := c.p.Named("bft", "Message")
	msgSignBytes := c.fn("bft.(*Message).SignBytes")
	if msgT != nil && qcT != nil && msgSignBytes != nil {
		mlits := c.p.compositeLits(msgSignBytes, msgT)
		qlits := c.p.compositeLits(msgSignBytes, qcT)
		var proposer, pacemaker map[string]ast.Expr
		for _, l := range mlits {
			if _, ok := l["Header"]; ok {
				proposer = l
			} else {
				pacemaker = l
			}
		}
		if proposer == nil || pacemaker == nil || len(qlits) != 3 {
			r.Unk("R1/Message.SignBytes/forms", c.p.Pos(msgSignBytes.Pos()), fmt.Sprintf("expected a proposer and a pacemaker Message literal and three QC literals, found %d Message and %d QC literals", len(mlits), len(qlits)))
		} else {
			have := keysOf(proposer)
			have["Qc"] = true // set by the assignment msg.Qc = &QC{...} below the literal (checked next)
			c.coverCheck("R1", "Message.SignBytes[proposer]", msgT, protoFields(msgT), have, map[string]string{
				"Signature": "is the signature itself",
				"Vdf":       "not set on proposer messages (replicas attach VDFs to election votes)",
			}, c.p.Pos(msgSignBytes.Pos()))
			// the proposer form's certificate: everything but the payload bodies
			var propQC, replicaQC, paceQC map[string]ast.Expr
			for _, l := range qlits {
				switch {
				case l["Signature"] != nil:
					propQC = l
				case len(l) == 1:
					paceQC = l
				default:
					replicaQC = l
				}
			}
			if propQC == nil || replicaQC == nil || paceQC == nil {
				r.Unk("R1/Message.SignBytes/qc-forms", c.p.Pos(msgSignBytes.Pos()), "could not tell the proposer / replica / pacemaker certificate literals apart")
			} else {
				c.coverCheck("R1", "Message.SignBytes[proposer].Qc", qcT, protoFields(qcT), keysOf(propQC), map[string]string{"Block": "bound by BlockHash", "Results": "bound by ResultsHash"}, c.p.Pos(msgSignBytes.Pos()))
				c.coverCheck("R1", "Message.SignBytes[replica].Qc", qcT, protoFields(qcT), keysOf(replicaQC), map[string]string{"Block": "bound by BlockHash", "Results": "bound by ResultsHash", "Signature": "replica votes carry no aggregate signature; the vote's own signature is over these bytes"}, c.p.Pos(msgSignBytes.Pos()))
				_, hasHdr := paceQC["Header"]
				r.Check(hasHdr, "R1/Message.SignBytes[pacemaker]/Header", c.p.Pos(msgSignBytes.Pos()), "pacemaker form signs the view", "the pacemaker form no longer signs the certificate header (the view)")
			}
		}
	}
	// identity keys of stored evidence / partial certificates
	addDSE := c.fn("bft.(*BFT).AddDSE")
	addPartial := c.fn("bft.(*BFT).AddPartialQC")
	if addDSE != nil {
		n := 0
		instrs(addDSE, func(in ssa.Instruction) {
			var key ssa.Value
			switch x := in.(type) {
			case *ssa.MapUpdate:
				key = x.Key
			case *ssa.Lookup:
				key = x.Index
			}
			if key == nil {
				return
			}
			n++
			p := c.p.path(key)
			r.Check(p == "lib.BytesToString(lib.Marshal($2)#0)", "R1/AddDSE/evidence-identity", c.p.Pos(in.Pos()), "evidence identity = marshalled evidence item", "double-sign evidence is de-duplicated under "+p+", not under the marshalling of the whole evidence item: two items that differ only in signers/bitmaps would share an identity and one would be dropped")
		})
		r.Check(n >= 2, "R1/AddDSE/identity-sites", c.p.Pos(addDSE.Pos()), "lookup and insert use the identity", "AddDSE no longer de-duplicates evidence by identity (rule needs re-reading)")
	}
	if addPartial != nil {
		instrs(addPartial, func(in ssa.Instruction) {
			if mu, ok := in.(*ssa.MapUpdate); ok {
				p := c.p.path(mu.Key)
				r.Check(p == "lib.BytesToString(lib.Marshal($1.Qc)#0)", "R1/AddPartialQC/identity", c.p.Pos(in.Pos()), "partial certificate identity = marshalled certificate", "partial certificates are stored under "+p+", not under the marshalling of the certificate")
			}
		})
	}

	// ------------------------------------------------------------------ R2
	r.Rule("R2", "AGREE", "prefix tables: fsm state prefixes pairwise distinct and equal to the set named in corePrefixNames; indexer prefixes pairwise distinct; top-level store prefixes pairwise distinct and none a prefix of another", 30)
	distinct := func(what string, m map[string]string) {
		byVal := map[string][]string{}
		for n, v := range m {
			byVal[v] = append(byVal[v], n)
		}
		var names []string
		for n := range m {
			names = append(names, n)
		}
		sort.Strings(names)
		for _, n := range names {
			others := byVal[m[n]]
			r.Check(len(others) == 1, "R2/"+what+"/"+n, what, n+" = "+m[n]+" is unique", fmt.Sprintf("%s shares the prefix value %s with %v: keys of two different record kinds would fall into one range", n, m[n], others))
		}
	}
	fsmPrefixes := c.p.byteSlicePrefixVars("fsm", func(n string) bool { return strings.HasSuffix(n, "Prefix") })
	r.Check(len(fsmPrefixes) >= 15, "R2/fsm/count", "fsm/key.go", fmt.Sprintf("%d state prefixes", len(fsmPrefixes)), "fewer fsm key prefixes found than known (15)")
	distinct("fsm/key.go", fsmPrefixes)
	idxPrefixes := c.p.byteSlicePrefixVars("store", func(n string) bool { return strings.HasSuffix(n, "Prefix") })
	r.Check(len(idxPrefixes) >= 14, "R2/store-indexer/count", "store/indexer.go", fmt.Sprintf("%d indexer prefixes", len(idxPrefixes)), "fewer indexer key prefixes found than known (14)")
	distinct("store/indexer.go", idxPrefixes)
	// corePrefixNames agreement (map literal keyed by prefix byte)
	if pk := c.p.pkg("fsm"); pk != nil {
		if obj := pk.Types.Scope().Lookup("corePrefixNames"); obj != nil {
			named := map[string]bool{}
			for _, file := range pk.Syntax {
				ast.Inspect(file, func(n ast.Node) bool {
					vs, ok := n.(*ast.ValueSpec)
					if !ok || len(vs.Names) != 1 || vs.Names[0].Name != "corePrefixNames" || len(vs.Values) != 1 {
						return true
					}
					if cl, ok := vs.Values[0].(*ast.CompositeLit); ok {
						for _, el := range cl.Elts {
							if kv, ok := el.(*ast.KeyValueExpr); ok {
								if tv, ok := pk.TypesInfo.Types[kv.Key]; ok && tv.Value != nil {
									named[tv.Value.ExactString()] = true
								} else if ix, ok := kv.Key.(*ast.IndexExpr); ok {
									if id, ok := ix.X.(*ast.Ident); ok {
										named[fsmPrefixes[id.Name]] = true
									}
								}
							}
						}
					}
					return true
				})
			}
			if len(named) > 0 {
				for n, v := range fsmPrefixes {
					r.Check(named[v], "R2/corePrefixNames/"+n, "fsm", "prefix "+v+" is named", "state prefix "+n+" ("+v+") has no entry in corePrefixNames")
				}
			}
		}
	}
	// top-level store prefixes: string constants handed to JoinLenPrefix
	storePk := c.p.pkg("store")
	top := map[string]string{}
	if storePk != nil {
		for _, file := range storePk.Syntax {
			ast.Inspect(file, func(n ast.Node) bool {
				vs, ok := n.(*ast.ValueSpec)
				if !ok {
					return true
				}
				for i, nm := range vs.Names {
					if i >= len(vs.Values) || !strings.HasSuffix(nm.Name, "Prefix") {
						continue
					}
					call, ok := vs.Values[i].(*ast.CallExpr)
					if !ok || len(call.Args) != 1 {
						continue
					}
					if se, ok := call.Fun.(*ast.SelectorExpr); !ok || se.Sel.Name != "JoinLenPrefix" {
						continue
					}
					if conv, ok := call.Args[0].(*ast.CallExpr); ok && len(conv.Args) == 1 {
						if tv, ok := storePk.TypesInfo.Types[conv.Args[0]]; ok && tv.Value != nil {
							top[nm.Name] = tv.Value.ExactString()
						}
					}
				}
				return true
			})
		}
	}
	r.Check(len(top) >= 6, "R2/store-top/count", "store/store.go", fmt.Sprintf("%d top-level prefixes", len(top)), "fewer top-level store prefixes found than known (6)")
	distinct("store/store.go", top)
	for a, va := range top {
		for b, vb := range top {
			if a != b && strings.HasPrefix(strings.Trim(vb, `"`), strings.Trim(va, `"`)) {
				r.Bad("R2/store-top/prefix-of/"+a+"-"+b, "store/store.go", a+" ("+va+") is a prefix of "+b+" ("+vb+")")
			}
		}
	}

	// ------------------------------------------------------------------ R3
	r.Rule("R3", "FLOW", "composite keys only through the joiner: every key-building function of fsm/key.go returns lib.JoinLenPrefix(...) or an append of two joiner results; the indexer's key() and the store's commitIDKey do the same", 28)
	nKeyFns := 0
	for _, f := range c.p.Funcs {
		if f.Parent() != nil || isTestFile(c.p, f.Pos()) {
			continue
		}
		file := c.p.Fset.Position(f.Pos()).Filename
		isKeyFile := strings.HasSuffix(file, "fsm/key.go")
		name := f.Name()
		if !(isKeyFile && (strings.HasPrefix(name, "KeyFor") || strings.HasSuffix(name, "Prefix"))) && fnName(f) != "(*store.Indexer).key" && fnName(f) != "(*store.Store).commitIDKey" {
			continue
		}
		if f.Signature.Results().Len() != 1 {
			continue
		}
		if sl, ok := f.Signature.Results().At(0).Type().Underlying().(*types.Slice); !ok || !isByte(sl.Elem()) {
			continue
		}
		nKeyFns++
		instrs(f, func(in ssa.Instruction) {
			ret, ok := in.(*ssa.Return)
			if !ok {
				return
			}
			p := c.p.path(ret.Results[0])
			r.Check(joinerShaped(p), "R3/key-fn/"+fnName(f), c.p.Pos(f.Pos()), "returns "+short(p), fnName(f)+" builds its key as "+p+", not through lib.JoinLenPrefix: variable-length segments could run into each other")
		})
	}
	r.Analysed["key_functions"] = nKeyFns

	// ------------------------------------------------------------------ R4
	r.Rule("R4", "AGREE+WHO", "critical decoders: lib.Unmarshal and rejectUnknownForCriticalMessages list the same critical types, including Block, Transaction and QuorumCertificate; raw protobuf decoders are called only at the audited sites", 6)
	unmarshal := c.fn("lib.Unmarshal")
	// the unknown-field walk is reached through a second type switch (rejectUnknownForCriticalMessages) or, if that helper
	// was folded into Unmarshal, directly
	reject := c.fnQuiet("lib.rejectUnknownForCriticalMessages")
	walk := c.fn("lib.detectUnknownProtoFields")
	if unmarshal != nil && (reject != nil || walk != nil) {
		a := c.p.typeSwitchOf(unmarshal)
		var b *switchInfo
		if reject != nil {
			b = c.p.typeSwitchOf(reject)
		}
		if a == nil || (reject != nil && b == nil) {
			r.Unk("R4/critical-lists", c.p.Pos(unmarshal.Pos()), "could not find the critical-type switches")
		} else {
			if b != nil {
				c.setsEqual("R4", "lib.Unmarshal", caseNames(a), "rejectUnknownForCriticalMessages", caseNames(b), c.p.Pos(unmarshal.Pos()))
			} else {
				r.OK("R4/critical-lists/single", c.p.Pos(unmarshal.Pos()), "one critical-type list: the unknown-field walk is called from lib.Unmarshal itself")
			}
			for _, must := range []string{"*lib.Block", "*lib.Transaction", "*lib.QuorumCertificate"} {
				found := false
				for _, n := range caseNames(a) {
					if n == must {
						found = true
					}
				}
				r.Check(found, "R4/critical-type/"+must, c.p.Pos(unmarshal.Pos()), must+" is decoded strictly", must+" is no longer in the critical-message list: unknown fields and oversize elements would be accepted for it")
			}
		}
		// the strict path: preflight before decoding, unknown-field walk after
		pre := c.fn("lib.preflightProtoBytes")
		if pre != nil {
			strict := reject
			if strict == nil {
				strict = walk
			}
			c.mpt(mptSpec{rule: "R4", fn: unmarshal, events: evSet{"preflight": {pre}, "rejectUnknown": {strict}},
				atom: func(v ssa.Value) (string, bool) {
					if ph, ok := v.(*ssa.Phi); ok && isBoolType(ph.Type()) {
						return "", false
					}
					return "", false
				},
				target: tgtOkReturn("ok-return"),
				reqs: func(string) []string {
					return []string{"!seen:preflight|preflight.ok", "!seen:preflight|rejectUnknown.ok"}
				}, minTarget: 1})
		}
	}
	allowedRaw := map[string]string{
		"lib.Unmarshal":                                      "the strict decoder itself",
		"(*lib/codec.Protobuf).Unmarshal":                    "generic binary codec used for non-critical payloads",
		"(lib/codec.Protobuf).Unmarshal":                     "generic binary codec used for non-critical payloads",
		"(*lib/codec.Protobuf).FromAny":                      "generic any decoding",
		"(lib/codec.Protobuf).FromAny":                       "generic any decoding",
		"lib/crypto.NewMultiBLSFromPublicKey":                "multi-signature public key container",
		"lib.FromAny":                                        "any payloads (messages are re-checked by their Check methods)",
		"lib.fromAnyDynamic":                                 "plugin-registered dynamic messages",
		"lib.registerFileDescriptor":                         "plugin file descriptors",
		"lib.RegisterPluginFileDescriptors":                  "plugin file descriptors",
		"(*lib.PluginSchemaRegistry).RegisterFileDescriptor": "plugin file descriptors",
		"(*lib.PluginSchemaRegistry).Register":               "plugin file descriptors",
		"lib.MarshalAnypbJSON":                               "JSON rendering of an any payload for RPC output",
		"(*cmd/rpc.Client).IndexerBlobs":                     "RPC client decoding a server response (not a node input path)",
	}
	nRaw := 0
	for _, f := range c.p.Funcs {
		if !inCanopy(f) || isTestFile(c.p, f.Pos()) || strings.HasSuffix(c.p.Fset.Position(f.Pos()).Filename, ".pb.go") {
			continue
		}
		instrs(f, func(in ssa.Instruction) {
			cc := callCommon(in)
			if cc == nil {
				return
			}
			n := calleeName(cc)
			if n != "google.golang.org/protobuf/proto.Unmarshal" && n != "(google.golang.org/protobuf/proto.UnmarshalOptions).Unmarshal" && n != "google.golang.org/protobuf/types/known/anypb.UnmarshalNew" && n != "google.golang.org/protobuf/types/known/anypb.UnmarshalTo" {
				return
			}
			nRaw++
			enc := fnName(enclosing(f))
			// a raw decode straight into a critical type is never acceptable outside lib.Unmarshal
			critical := false
			for _, a := range cc.Args {
				t := types.TypeString(a.Type(), shortQual)
				if t == "*lib.Block" || t == "*lib.Transaction" || t == "*lib.QuorumCertificate" {
					critical = true
				}
			}
			if why, ok := allowedRaw[enc]; ok && !critical {
				r.OK("R4/raw-decoder/"+enc, c.p.Pos(in.Pos()), why)
			} else {
				r.Bad("R4/raw-decoder/"+enc, c.p.Pos(in.Pos()), "raw protobuf decoding ("+n+") in "+enc+": consensus-critical messages must go through lib.Unmarshal (size preflight + unknown-field rejection)")
			}
		})
	}
	r.Analysed["raw_decoder_sites"] = nRaw

	// ------------------------------------------------------------------ R5
	c.ruleWireLengthsChecked("R5")

	// ------------------------------------------------------------------ R6
	c.ruleWalkErrorsPropagate("R6")
}

// ruleWireLengthsChecked (C19.R5): a length read from untrusted bytes (protowire.ConsumeVarint) is a uint64 the sender
// chose. Before it is narrowed to int, used as an allocation size or as a slice bound it must have been compared, as an
// unsigned number, against a bound, on the branch that continues: int(l) of l >= 2^63 is negative, passes every later
// "offset+int(l) > len" test and make([]byte, l) panics.
func (c *ctx) ruleWireLengthsChecked(R string) {
	r := c.r
	r.Rule(R, "DOM", "never panics on a declared length: every value protowire.ConsumeVarint returns that is narrowed to a signed integer, used as an allocation size or as a slice bound is dominated by the accepting branch of an unsigned comparison of that value with a bound", 3)
	n := 0
	for _, f := range c.p.Funcs {
		if !inCanopyRaw(f) || isTestFile(c.p, f.Pos()) || isGenerated(c.p, f) {
			continue
		}
		for _, b := range f.Blocks {
			for _, in := range b.Instrs {
				call, ok := in.(*ssa.Call)
				if !ok {
					continue
				}
				sc := call.Common().StaticCallee()
				if sc == nil || sc.Pkg == nil || sc.Pkg.Pkg.Path() != "google.golang.org/protobuf/encoding/protowire" || sc.Name() != "ConsumeVarint" {
					continue
				}
				for _, ref := range *call.Referrers() {
					ex, ok := ref.(*ssa.Extract)
					if !ok || ex.Index != 0 {
						continue
					}
					c.wireLengthUses(R, f, ex, &n)
				}
			}
		}
	}
	r.Analysed["wire_length_uses"] = n
}

func isGenerated(p *Prog, f *ssa.Function) bool {
	return strings.HasSuffix(p.Fset.Position(f.Pos()).Filename, ".pb.go")
}

func (c *ctx) wireLengthUses(R string, f *ssa.Function, v ssa.Value, n *int) {
	r := c.r
	// the accepting successors of the unsigned comparisons of v
	var accept []*ssa.BasicBlock
	for _, ref := range *v.Referrers() {
		bo, ok := ref.(*ssa.BinOp)
		if !ok {
			continue
		}
		var small bool // true: the comparison is true when v is the smaller side
		switch {
		case bo.X == v && (bo.Op == token.LSS || bo.Op == token.LEQ):
			small = true
		case bo.Y == v && (bo.Op == token.GTR || bo.Op == token.GEQ):
			small = true
		case bo.X == v && (bo.Op == token.GTR || bo.Op == token.GEQ):
		case bo.Y == v && (bo.Op == token.LSS || bo.Op == token.LEQ):
		default:
			continue
		}
		other := bo.Y
		if bo.Y == v {
			other = bo.X
		}
		if k, isConst := other.(*ssa.Const); isConst && k.Value != nil && k.Uint64() == 0 {
			continue // a test against zero bounds nothing
		}
		for _, cr := range *bo.Referrers() {
			neg := false
			var cond ssa.Instruction = cr
			if un, ok := cr.(*ssa.UnOp); ok && un.Op == token.NOT {
				neg = true
				for _, r2 := range *un.Referrers() {
					cond = r2
				}
			}
			iff, ok := cond.(*ssa.If)
			if !ok {
				continue
			}
			idx := 1
			if small != neg {
				idx = 0
			}
			succ := iff.Block().Succs[idx]
			if len(succ.Preds) == 1 {
				accept = append(accept, succ)
			}
		}
	}
	guarded := func(b *ssa.BasicBlock) bool {
		for _, a := range accept {
			if a.Dominates(b) {
				return true
			}
		}
		return false
	}
	name := fnName(enclosing(f))
	for _, ref := range *v.Referrers() {
		what := ""
		switch x := ref.(type) {
		case *ssa.Convert:
			if bt, ok := x.Type().Underlying().(*types.Basic); ok && bt.Info()&types.IsInteger != 0 && bt.Info()&types.IsUnsigned == 0 {
				what = "narrowed to " + bt.Name()
			}
		case *ssa.MakeSlice:
			what = "used as an allocation size"
		case *ssa.Slice:
			if x.Low == v || x.High == v || x.Max == v {
				what = "used as a slice bound"
			}
		case *ssa.Index, *ssa.IndexAddr:
			what = "used as an index"
		}
		if what == "" {
			continue
		}
		*n++
		in := ref.(ssa.Instruction)
		r.Check(guarded(in.Block()), fmt.Sprintf("%s/%s/%s", R, name, strings.ReplaceAll(what, " ", "-")), c.p.Pos(in.Pos()), "length checked unsigned before it is "+what, fmt.Sprintf("in %s a length decoded from untrusted bytes (%s) is %s without a preceding unsigned range check: a declared length of 2^63 or more becomes negative / oversize and the decoder panics instead of rejecting the message", name, c.p.path(v), what))
	}
}

// ruleWalkErrorsPropagate (C19.R6): the unknown-field walk is recursive; what a nested walk reports must reach the caller.
// Decided structurally: the error result of every recursive call is used for more than a nil test: it is returned, or
// stored where the function's result is read from. A result that is only compared with nil is dropped (the classic
// shadowed `err :=` inside a closure).
func (c *ctx) ruleWalkErrorsPropagate(R string) {
	r := c.r
	r.Rule(R, "FLOW", "unknown fields are rejected at every depth: in detectUnknownProtoFields the error of every recursive call is returned or stored into the variable the walk returns, never only tested", 3)
	walk := c.fn("lib.detectUnknownProtoFields")
	if walk == nil {
		return
	}
	// the cells the function's result is read from
	resultCells := map[ssa.Value]bool{}
	for _, b := range walk.Blocks {
		if ret, ok := b.Instrs[len(b.Instrs)-1].(*ssa.Return); ok {
			for _, res := range ret.Results {
				var visit func(v ssa.Value, d int)
				visit = func(v ssa.Value, d int) {
					if d > 6 {
						return
					}
					switch x := v.(type) {
					case *ssa.UnOp:
						if x.Op == token.MUL {
							resultCells[x.X] = true
						}
					case *ssa.Phi:
						for _, e := range x.Edges {
							visit(e, d+1)
						}
					case *ssa.MakeInterface:
						visit(x.X, d+1)
					case *ssa.ChangeInterface:
						visit(x.X, d+1)
					}
				}
				visit(res, 0)
			}
		}
	}
	n := 0
	for _, g := range bodyFuncs(walk, true) {
		instrs(g, func(in ssa.Instruction) {
			call, ok := in.(*ssa.Call)
			if !ok || !callIs(call.Common(), walk) {
				return
			}
			n++
			kept := false
			var uses func(v ssa.Value, d int)
			uses = func(v ssa.Value, d int) {
				if d > 6 || v.Referrers() == nil {
					return
				}
				for _, ref := range *v.Referrers() {
					switch x := ref.(type) {
					case *ssa.Return:
						if g == walk {
							kept = true
						}
					case *ssa.Store:
						if x.Val == v {
							if resultCells[bindingOf(x.Addr)] {
								kept = true
							}
						}
					case *ssa.Phi:
						uses(x, d+1)
					case *ssa.MakeInterface:
						uses(x, d+1)
					case *ssa.ChangeInterface:
						uses(x, d+1)
					case *ssa.Call:
						// wrapped into another error (fmt.Errorf("…: %w", err)): what becomes of the wrapper counts
						uses(x, d+1)
					case *ssa.Slice, *ssa.IndexAddr:
					}
				}
			}
			uses(call, 0)
			r.Check(kept, fmt.Sprintf("%s/recursive-call#%d", R, n), c.p.Pos(call.Pos()), "nested result returned or stored into the walk's result", "detectUnknownProtoFields tests the result of its recursive call but does not return it or store it into the variable the walk returns: an unknown field below this level stops the walk and is accepted")
		})
	}
	r.Analysed["recursive_walk_calls"] = n
}

func isByte(t types.Type) bool {
	b, ok := t.Underlying().(*types.Basic)
	return ok && (b.Kind() == types.Byte || b.Kind() == types.Uint8)
}

// joinerShaped: JoinLenPrefix(...) | append(<joiner or key fn>, JoinLenPrefix(...)...) | call of another key function.
func joinerShaped(p string) bool {
	p = strings.TrimSuffix(p, "[:]")
	switch {
	case strings.HasPrefix(p, "lib.JoinLenPrefix("):
		return true
	case strings.HasPrefix(p, "append("):
		inner := strings.TrimPrefix(p, "append(")
		// first operand: a joiner result or a key/prefix function of fsm; the appended part must be a joiner result
		okFirst := strings.HasPrefix(inner, "lib.JoinLenPrefix(") || strings.HasPrefix(inner, "fsm.") || strings.HasPrefix(inner, "store.stateCommitIDPrefix")
		return okFirst && strings.Contains(inner, ",lib.JoinLenPrefix(")
	case strings.HasPrefix(p, "fsm.KeyFor") || (strings.HasPrefix(p, "fsm.") && strings.Contains(p, "Prefix(")):
		return true
	case strings.HasPrefix(p, "lib.Append(lib.JoinLenPrefix("):
		return true
	}
	return false
}

// bindingOf follows a closure's free variable to the variable of the enclosing function it is bound to.
func bindingOf(addr ssa.Value) ssa.Value {
	for i := 0; i < 4; i++ {
		fv, ok := addr.(*ssa.FreeVar)
		if !ok {
			return addr
		}
		fn := fv.Parent()
		outer := fn.Parent()
		if outer == nil {
			return addr
		}
		idx := -1
		for j, v := range fn.FreeVars {
			if v == fv {
				idx = j
			}
		}
		var b ssa.Value
		for _, blk := range outer.Blocks {
			for _, in := range blk.Instrs {
				if mc, ok := in.(*ssa.MakeClosure); ok && mc.Fn == fn && idx >= 0 && idx < len(mc.Bindings) {
					b = mc.Bindings[idx]
				}
			}
		}
		if b == nil {
			return addr
		}
		addr = b
	}
	return addr
}
