package main

import (
	"go/token"
	"go/types"
	"strings"

	"golang.org/x/tools/go/ssa"
)

func init() { register("C14", c14) }

// C14 — Slashing accountability.
func c14(c *ctx) {
	r := c.r
	r.Explain = "Static decision of the evidence gate: (R1) DoubleSignEvidence.Check/CheckBasic return nil only after the freshness test, both certificates verified, View.Equals(true) on the two headers (all view fields), differing sign bytes and phase above PROPOSE; ProcessDSE names a key only after CheckBasic, Check, differing payloads, GetDoubleSigners and IsValidDoubleSigner, with the committee of VoteA's root height; " +
		"(R2) GetDoubleSigners appends a key only when the signer bit is enabled in both bitmaps; (R3) replicas accept a proposer's slash list only if re-derived from the attached evidence, before the block is applied; (R4) a (address,height) is slashed only after IsValidDoubleSigner is true and it was indexed; index writer and reader share the key; (R5) under protocol v2 the per-committee cap is consulted and the tracker updated before any burn."
	r.NotCovered = []string{"that an honest validator's signature cannot appear in two valid certificates of one view (cryptography + C01)", "arithmetic of the slash percentage and of the cap"}
	r.Trusted = []string{"BLS aggregate verification", "the indexer stores what it is given (C09/C10)"}

	dseCheck := c.fn("bft.(*DoubleSignEvidence).Check")
	dseCheckBasic := c.fn("bft.(*DoubleSignEvidence).CheckBasic")
	processDSE := c.fn("bft.(*BFT).ProcessDSE")
	validateBE := c.fn("bft.(*BFT).ValidateByzantineEvidence")
	qcCheck := c.fn("lib.(*QuorumCertificate).Check")
	viewEquals := c.fn("lib.(*View).Equals")
	qcSignBytes := c.fn("lib.(*QuorumCertificate).SignBytes")
	getDS := c.fn("lib.(*AggregateSignature).GetDoubleSigners")
	bytesEqual := lookupStd(c.p, "bytes", "Equal")
	if dseCheck == nil || dseCheckBasic == nil || processDSE == nil || validateBE == nil || qcCheck == nil || viewEquals == nil || qcSignBytes == nil || getDS == nil || bytesEqual == nil {
		return
	}

	// ------------------------------------------------------------------ R1
	r.Rule("R1", "MPT", "evidence validation: DoubleSignEvidence.Check returns nil only after freshness, VoteA.Check ok, VoteB.Check ok, Header.Equals true, differing sign bytes, Phase > PROPOSE; CheckBasic only after Header.Equals true; View.Equals compares every field; ProcessDSE appends only after every check", 8)
	// which vote a Check call is made on
	voteEv := func(in ssa.Instruction) string {
		cc := callCommon(in)
		if cc == nil {
			return ""
		}
		switch {
		case callIs(cc, qcCheck):
			switch c.p.path(cc.Args[0]) {
			case "$0.VoteA":
				return "VoteA.Check"
			case "$0.VoteB":
				return "VoteB.Check"
			}
		case callIs(cc, viewEquals):
			a, b := c.p.path(cc.Args[0]), c.p.path(cc.Args[1])
			if (a == "$0.VoteA.Header" && b == "$0.VoteB.Header") || (a == "$0.VoteB.Header" && b == "$0.VoteA.Header") {
				return "Header.Equals"
			}
		case callIs(cc, bytesEqual):
			a, b := c.p.path(cc.Args[0]), c.p.path(cc.Args[1])
			if (a == "$0.VoteA.SignBytes()" && b == "$0.VoteB.SignBytes()") || (a == "$0.VoteB.SignBytes()" && b == "$0.VoteA.SignBytes()") {
				return "samePayload"
			}
		}
		return ""
	}
	c.mpt(mptSpec{
		rule: "R1", fn: dseCheck, events: evSet{}, extraEv: voteEv,
		atom: cmpAtoms(c.p,
			cmpSpec{"tooOld", token.LSS, pathIs("$0.VoteA.Header.RootHeight"), pathIs("$3")},
			cmpSpec{"phase<=Propose", token.LEQ, pathIs("$0.VoteA.Header.Phase"), pathAny()}),
		target: tgtOkReturn("ok-return"),
		reqs: func(string) []string {
			return []string{"@tooOld=F", "VoteA.Check.ok", "VoteB.Check.ok", "Header.Equals#0=T", "samePayload#0=F", "@phase<=Propose=F"}
		},
		minTarget: 1,
	})
	// both certificate checks use the committee, the view and no block-size allowance
	for _, cs := range callsIn(dseCheck, false, qcCheck) {
		vs, view := c.p.path(argOf(cs, 0)), c.p.path(argOf(cs, 2))
		r.Check(vs == "$1" && view == "$2", "R1/Check/certificate-args", c.p.Pos(cs.Pos()), "certificates checked against the given committee and view", "a vote of the evidence is checked against committee "+vs+" and view "+view+" instead of the parameters (vs, view)")
	}
	// the phase comparison is against Propose
	c.mpt(mptSpec{rule: "R1", fn: dseCheckBasic, events: evSet{}, extraEv: voteEv, target: tgtOkReturn("ok-return"),
		reqs: func(string) []string { return []string{"Header.Equals#0=T"} }, minTarget: 1})
	// View.Equals covers every field of View
	if viewT := c.p.Named("lib", "View"); viewT != nil {
		sel := c.p.selectorsOn(viewEquals, viewT)
		have := map[string]bool{}
		for f, n := range sel {
			if n >= 2 { // compared on both operands
				have[f] = true
			}
		}
		c.coverCheck("R1", "View.Equals", viewT, protoFields(viewT), have, map[string]string{}, c.p.Pos(viewEquals.Pos()))
	}
	// ProcessDSE
	loadCommitteeM := c.p.IfaceMethod("bft", "Controller", "LoadCommittee")
	isValidDSM := c.p.IfaceMethod("bft", "Controller", "IsValidDoubleSigner")
	loadMinM := c.p.IfaceMethod("bft", "Controller", "LoadMinimumEvidenceHeight")
	r.Anchor(loadCommitteeM != nil, "bft.Controller.LoadCommittee")
	r.Anchor(isValidDSM != nil, "bft.Controller.IsValidDoubleSigner")
	r.Anchor(loadMinM != nil, "bft.Controller.LoadMinimumEvidenceHeight")
	dsT := c.p.Named("lib", "DoubleSigner")
	if loadCommitteeM != nil && isValidDSM != nil && loadMinM != nil && dsT != nil {
		c.mpt(mptSpec{
			rule: "R1", fn: processDSE,
			events: evSet{"CheckBasic": {dseCheckBasic}, "Check": {dseCheck}, "GetDoubleSigners": {getDS}},
			extraEv: firstOf(invokeEvent(map[*types.Func]string{loadCommitteeM: "LoadCommittee", isValidDSM: "IsValidDoubleSigner", loadMinM: "LoadMinimumEvidenceHeight"}),
				func(in ssa.Instruction) string {
					if cc := callCommon(in); cc != nil && callIs(cc, bytesEqual) && strings.HasSuffix(c.p.path(cc.Args[0]), ".SignBytes()") && strings.HasSuffix(c.p.path(cc.Args[1]), ".SignBytes()") {
						return "samePayload"
					}
					return ""
				}),
			// a key is implicated where a DoubleSigner literal is allocated or AddHeight is called
			target: func(in ssa.Instruction, st *PState, e *pathEngine) string {
				if a, ok := in.(*ssa.Alloc); ok {
					if nt := namedOf(a.Type()); nt != nil && nt.Obj() == dsT.Obj() {
						return "implicate-new"
					}
				}
				if cc := callCommon(in); cc != nil {
					if sc := cc.StaticCallee(); sc != nil && sc.Name() == "AddHeight" {
						return "implicate-height"
					}
				}
				return ""
			},
			// per evidence item: a new CheckBasic starts a new item
			resets: map[string][]string{"CheckBasic": {"Check", "GetDoubleSigners", "LoadCommittee", "LoadMinimumEvidenceHeight", "samePayload", "IsValidDoubleSigner"}},
			reqs: func(string) []string {
				return []string{"CheckBasic.ok", "LoadCommittee.ok", "LoadMinimumEvidenceHeight.ok", "Check.ok", "samePayload#0=F", "GetDoubleSigners.ok", "IsValidDoubleSigner#0=T"}
			},
			minTarget: 2,
		})
		// the committee, the freshness bound and the validity test all refer to VoteA's root height
		instrs(processDSE, func(in ssa.Instruction) {
			cc := callCommon(in)
			if cc == nil || !cc.IsInvoke() {
				return
			}
			switch cc.Method {
			case loadCommitteeM, loadMinM, isValidDSM:
				p := c.p.path(cc.Args[1])
				r.Check(strings.HasSuffix(p, ".VoteA.Header.RootHeight"), "R1/ProcessDSE/"+cc.Method.Name()+"-height", c.p.Pos(in.Pos()), "at the evidence's root height", cc.Method.Name()+" is asked about height "+p+", expected the root height of the evidence (VoteA.Header.RootHeight)")
			}
		})
		for _, cs := range callsIn(processDSE, false, dseCheck) {
			vs := c.p.path(argOf(cs, 0))
			r.Check(has(vs, ".LoadCommittee(") && hasSuffix(vs, "#0"), "R1/ProcessDSE/check-committee", c.p.Pos(cs.Pos()), "evidence checked against the loaded committee", "the evidence is checked against "+vs+", not the committee loaded for its root height")
		}
		for _, cs := range callsIn(processDSE, false, getDS) {
			a, b, vs := c.p.path(recvOf(cs)), c.p.path(argOf(cs, 0)), c.p.path(argOf(cs, 1))
			okk := hasSuffix(a, ".VoteA.Signature") && hasSuffix(b, ".VoteB.Signature") && has(vs, ".LoadCommittee(")
			r.Check(okk, "R1/ProcessDSE/intersection-operands", c.p.Pos(cs.Pos()), "intersects the two votes' signatures over the loaded committee", "GetDoubleSigners is given ("+a+", "+b+", "+vs+"), expected (VoteA.Signature, VoteB.Signature, loaded committee)")
		}
	}

	// ------------------------------------------------------------------ R2
	r.Rule("R2", "MPT", "GetDoubleSigners appends a public key only when SignerEnabledAt(i) is true for both bitmaps (both SetBitmap calls succeeded)", 1)
	setBitmapM := c.p.IfaceMethod("lib/crypto", "MultiPublicKeyI", "SetBitmap")
	enabledM := c.p.IfaceMethod("lib/crypto", "MultiPublicKeyI", "SignerEnabledAt")
	if r.Anchor(setBitmapM != nil && enabledM != nil, "crypto.MultiPublicKeyI.SetBitmap/SignerEnabledAt") {
		var keys []ssa.Value
		c.mpt(mptSpec{
			rule: "R2", fn: getDS, events: evSet{},
			extraEv: func(in ssa.Instruction) string {
				cc := callCommon(in)
				if cc == nil || !cc.IsInvoke() {
					return ""
				}
				if cc.Method == setBitmapM || cc.Method == enabledM {
					k := cc.Value
					idx := -1
					for i, x := range keys {
						if x == k {
							idx = i
						}
					}
					if idx < 0 {
						keys = append(keys, k)
						idx = len(keys) - 1
					}
					name := "SetBitmap"
					if cc.Method == enabledM {
						name = "Enabled"
					}
					return name + string(rune('1'+idx))
				}
				return ""
			},
			target: func(in ssa.Instruction, st *PState, e *pathEngine) string {
				if cc := callCommon(in); cc != nil {
					if b, ok := cc.Value.(*ssa.Builtin); ok && b.Name() == "append" {
						return "append-signer"
					}
				}
				return ""
			},
			reqs: func(string) []string {
				return []string{"SetBitmap1#0=T", "SetBitmap2#0=T", "Enabled1#0=T", "Enabled1#1=T", "Enabled2#0=T", "Enabled2#1=T"}
			},
			minTarget: 1,
		})
		// the two keys are independent copies carrying the two signatures' bitmaps
		var bm []string
		instrs(getDS, func(in ssa.Instruction) {
			if cc := callCommon(in); cc != nil && cc.IsInvoke() && cc.Method == setBitmapM {
				bm = append(bm, c.p.path(cc.Args[0]))
			}
		})
		okb := len(bm) == 2 && ((bm[0] == "$0.Bitmap" && bm[1] == "$1.Bitmap") || (bm[0] == "$1.Bitmap" && bm[1] == "$0.Bitmap"))
		r.Check(okb, "R2/GetDoubleSigners/bitmaps", c.p.Pos(getDS.Pos()), "one key per signature bitmap", "GetDoubleSigners sets bitmaps "+strings.Join(bm, ", ")+", expected x.Bitmap and y.Bitmap on two independent key copies")
	}

	// ------------------------------------------------------------------ R3
	r.Rule("R3", "MPT", "proposer slash lists are re-derived: ValidateProposal applies the block only after ValidateByzantineEvidence ok; ValidateByzantineEvidence accepts a non-empty list only after ProcessDSE ok and ContainsFunc true for every listed signer", 2)
	validateProposal := c.fn("controller.(*Controller).ValidateProposal")
	applyAndValidate := c.fn("controller.(*Controller).ApplyAndValidateBlock")
	if validateProposal != nil && applyAndValidate != nil {
		c.mpt(mptSpec{rule: "R3", fn: validateProposal, events: evSet{"ValidateByzantineEvidence": {validateBE}}, target: tgtCall("ApplyAndValidateBlock", applyAndValidate),
			reqs: func(string) []string { return []string{"ValidateByzantineEvidence.ok"} }, minTarget: 1})
		for _, cs := range callsIn(validateProposal, false, validateBE) {
			a, b := c.p.path(argOf(cs, 0)), c.p.path(argOf(cs, 1))
			r.Check(a == "$2.Results.SlashRecipients" && b == "$3", "R3/ValidateProposal/evidence-args", c.p.Pos(cs.Pos()), "validates the certificate's slash recipients against the attached evidence", "ValidateByzantineEvidence is given ("+a+", "+b+"), expected (qc.Results.SlashRecipients, evidence)")
		}
	}
	c.mpt(mptSpec{
		rule: "R3", fn: validateBE, events: evSet{"ProcessDSE": {processDSE}},
		extraEv: func(in ssa.Instruction) string {
			if cc := callCommon(in); cc != nil {
				if sc := cc.StaticCallee(); sc != nil && origin(sc).Name() == "ContainsFunc" {
					return "ContainsFunc"
				}
			}
			return ""
		},
		atom: cmpAtoms(c.p,
			cmpSpec{"listEmpty", token.EQL, pathIs("len($1.DoubleSigners)"), pathIs("0")},
			cmpSpec{"recipientsNil", token.EQL, pathIs("$1"), pathIs("nil")}),
		target: tgtOkReturn("ok-return"),
		reqs: func(string) []string {
			return []string{"@recipientsNil=T|@listEmpty=T|ProcessDSE.ok", "@recipientsNil=T|@listEmpty=T|!seen:ContainsFunc|ContainsFunc#0=T"}
		},
		minTarget: 1,
	})
	for _, cs := range callsIn(validateBE, false, processDSE) {
		p := c.p.path(cs.Common().Args[len(cs.Common().Args)-1])
		r.Check(strings.HasPrefix(p, "$2.DSE.Evidence"), "R3/ValidateByzantineEvidence/evidence-source", c.p.Pos(cs.Pos()), "re-derives from the attached evidence", "the slash list is re-derived from "+p+", not from the evidence attached to the proposal")
	}
	// every listed signer is looked up (the loop ranges over the proposal's list and looks it up in the locally derived one)
	okLookup := false
	instrs(validateBE, func(in ssa.Instruction) {
		if cc := callCommon(in); cc != nil {
			if sc := cc.StaticCallee(); sc != nil && origin(sc).Name() == "ContainsFunc" && strings.Contains(c.p.path(cc.Args[0]), ".ProcessDSE(") {
				okLookup = true
			}
		}
	})
	r.Check(okLookup, "R3/ValidateByzantineEvidence/lookup-in-derived", c.p.Pos(validateBE.Pos()), "looks every listed signer up in the locally derived list", "ValidateByzantineEvidence no longer looks the listed signers up in the list derived by ProcessDSE")
	// direction of the height justification: the heights the PROPOSAL claims are searched in the heights the evidence
	// proves (the element of the derived list), never the other way round — otherwise a proposer pads the claim
	instrs(validateBE, func(in ssa.Instruction) {
		cc := callCommon(in)
		if cc == nil || len(cc.Args) < 2 {
			return
		}
		if sc := cc.StaticCallee(); sc == nil || origin(sc).Name() != "ContainsFunc" || !strings.Contains(c.p.path(cc.Args[0]), ".ProcessDSE(") {
			return
		}
		mc, ok := unwrapClosure(cc.Args[1])
		if !ok {
			return
		}
		pred, _ := mc.Fn.(*ssa.Function)
		if pred == nil || len(pred.Params) == 0 {
			return
		}
		good, badHay := 0, ""
		var scan func(f *ssa.Function, elem *ssa.Parameter, d int)
		scan = func(f *ssa.Function, elem *ssa.Parameter, d int) {
			if d > 3 {
				return
			}
			for _, g := range withAnons(f) {
				instrs(g, func(in2 ssa.Instruction) {
					c2 := callCommon(in2)
					if c2 == nil || c2.IsInvoke() {
						return
					}
					callee := c2.StaticCallee()
					if callee == nil {
						return
					}
					if n := origin(callee).Name(); origin(callee).Pkg != nil && origin(callee).Pkg.Pkg.Path() == "slices" && (n == "Contains" || n == "ContainsFunc" || n == "Index" || n == "IndexFunc") && len(c2.Args) > 0 {
						if rootParam(c2.Args[0]) == elem {
							good++
						} else if rp := rootParam(c2.Args[0]); rp != nil || rootIsFreeVar(c2.Args[0]) {
							badHay = c.p.path(c2.Args[0])
						}
						return
					}
					// the element handed on to a helper / bound method
					if inCanopyRaw(callee) && len(callee.Blocks) > 0 {
						for i, a := range c2.Args {
							if a == ssa.Value(elem) && i < len(callee.Params) {
								scan(callee, callee.Params[i], d+1)
							}
						}
					}
				})
			}
		}
		scan(pred, pred.Params[0], 0)
		switch {
		case badHay != "":
			r.Bad("R3/ValidateByzantineEvidence/height-direction", c.p.Pos(in.Pos()), "the heights are searched in "+badHay+", which is not the locally derived entry (the element of the list ProcessDSE returned): the claimed heights must each be found among the proven ones, not the proven among the claimed — a proposer could pad its slash list with heights no evidence proves")
		case good > 0:
			r.OK("R3/ValidateByzantineEvidence/height-direction", c.p.Pos(in.Pos()), "claimed heights are searched in the derived entry's heights")
		default:
			r.OK("R3/ValidateByzantineEvidence/height-direction", c.p.Pos(in.Pos()), "height justification not expressed with slices.Contains: direction not decided by this rule")
		}
	})

	// ------------------------------------------------------------------ R4
	r.Rule("R4", "PAIR", "once per (address,height): HandleDoubleSigners appends to the slash list only after IsValidDoubleSigner true and IndexDoubleSigner ok for the same (address,height); the false edge aborts; index writer and reader use the same key", 3)
	handleDS := c.fn("fsm.(*StateMachine).HandleDoubleSigners")
	isValidM := c.p.IfaceMethod("lib", "StoreI", "IsValidDoubleSigner")
	indexDSM := c.p.IfaceMethod("lib", "StoreI", "IndexDoubleSigner")
	if handleDS != nil && r.Anchor(isValidM != nil && indexDSM != nil, "lib.StoreI.IsValidDoubleSigner/IndexDoubleSigner") {
		c.mpt(mptSpec{
			rule: "R4", fn: handleDS, events: evSet{},
			extraEv: invokeEvent(map[*types.Func]string{isValidM: "IsValid", indexDSM: "Index"}),
			resets:  map[string][]string{"IsValid": {"Index"}},
			target: func(in ssa.Instruction, st *PState, e *pathEngine) string {
				if cc := callCommon(in); cc != nil {
					if b, ok := cc.Value.(*ssa.Builtin); ok && b.Name() == "append" {
						return "slash-list-append"
					}
				}
				return ""
			},
			reqs:      func(string) []string { return []string{"IsValid.ok", "IsValid#0=T", "Index.ok"} },
			minTarget: 1,
		})
		var a1, h1, a2, h2 string
		instrs(handleDS, func(in ssa.Instruction) {
			if cc := callCommon(in); cc != nil && cc.IsInvoke() {
				switch cc.Method {
				case isValidM:
					a1, h1 = c.p.path(cc.Args[0]), c.p.path(cc.Args[1])
				case indexDSM:
					a2, h2 = c.p.path(cc.Args[0]), c.p.path(cc.Args[1])
				}
			}
		})
		r.Check(a1 != "" && a1 == a2 && h1 == h2, "R4/HandleDoubleSigners/same-key", c.p.Pos(handleDS.Pos()), "validity test and index use the same (address,height)", "IsValidDoubleSigner("+a1+","+h1+") and IndexDoubleSigner("+a2+","+h2+") use different keys: the at-most-once guard would not see what was indexed")
		// what is slashed is what was indexed
		slashDS := c.fn("fsm.(*StateMachine).SlashDoubleSigners")
		if slashDS != nil {
			r.Check(len(callsIn(handleDS, false, slashDS)) == 1, "R4/HandleDoubleSigners/slashes-list", c.p.Pos(handleDS.Pos()), "slashes the collected list once", "HandleDoubleSigners no longer slashes the collected list exactly once")
		}
	}
	idxKey := c.fn("store.(*Indexer).doubleSignerHeightKey")
	idxWrite := c.fn("store.(*Indexer).IndexDoubleSigner")
	idxRead := c.fn("store.(*Indexer).IsValidDoubleSigner")
	if idxKey != nil && idxWrite != nil && idxRead != nil {
		// writer and reader reach the key function directly or through helpers of the package (depth 2)
		var reach func(f *ssa.Function, depth int) bool
		reach = func(f *ssa.Function, depth int) bool {
			if len(callsIn(f, true, idxKey)) > 0 {
				return true
			}
			if depth >= 2 {
				return false
			}
			for _, g := range withAnons(f) {
				for _, cs := range allCalls(g) {
					if sc := cs.Common().StaticCallee(); sc != nil && !cs.Common().IsInvoke() && pkgShort(sc) == "store" && origin(sc) != f && reach(origin(sc), depth+1) {
						return true
					}
				}
			}
			return false
		}
		wr, rd := reach(idxWrite, 0), reach(idxRead, 0)
		r.Check(wr && rd, "R4/indexer/key-agreement", c.p.Pos(idxKey.Pos()), "writer and reader both use doubleSignerHeightKey", "IndexDoubleSigner and IsValidDoubleSigner no longer share doubleSignerHeightKey: a recorded slash would not be found again")
	}

	// ------------------------------------------------------------------ R5
	r.Rule("R5", "MPT", "per-committee cap: under protocol v2, SlashValidator burns only after the tracker's total was compared with MaxSlashPerCommittee (below the cap) and the slash was added to the tracker", 1)
	slash := c.fn("fsm.(*StateMachine).SlashValidator")
	subTotal := c.fn("fsm.(*StateMachine).SubFromTotalSupply")
	isFeature := c.fn("fsm.(*StateMachine).IsFeatureEnabled")
	getTotal := c.fn("fsm.(*SlashTracker).GetTotalSlashPercent")
	addSlash := c.fn("fsm.(*SlashTracker).AddSlash")
	if slash != nil && subTotal != nil && isFeature != nil && getTotal != nil && addSlash != nil {
		c.mpt(mptSpec{
			rule: "R5", fn: slash, events: evSet{"IsFeatureEnabled": {isFeature}, "GetTotalSlashPercent": {getTotal}, "AddSlash": {addSlash}},
			atom:   cmpAtoms(c.p, cmpSpec{"total>=max", token.GEQ, pathHasSuffix(".GetTotalSlashPercent($1.Address,$2)"), pathIs("$4.MaxSlashPerCommittee")}),
			target: tgtCall("burn", subTotal),
			reqs: func(string) []string {
				return []string{"seen:IsFeatureEnabled", "IsFeatureEnabled#0=F|@total>=max=F", "IsFeatureEnabled#0=F|seen:AddSlash"}
			},
			minTarget: 1,
		})
		for _, cs := range callsIn(slash, false, addSlash) {
			a, ch := c.p.path(argOf(cs, 0)), c.p.path(argOf(cs, 1))
			r.Check(a == "$1.Address" && ch == "$2", "R5/AddSlash/key", c.p.Pos(cs.Pos()), "tracker updated for (validator, chain)", "AddSlash records ("+a+", "+ch+"), expected (validator.Address, chainId): the cap would be tracked under another key than it is read")
		}
	}
}

// unwrapClosure finds the closure behind a function value (through interface/type changes).
func unwrapClosure(v ssa.Value) (*ssa.MakeClosure, bool) {
	for i := 0; i < 4; i++ {
		switch x := v.(type) {
		case *ssa.MakeClosure:
			return x, true
		case *ssa.ChangeType:
			v = x.X
		case *ssa.MakeInterface:
			v = x.X
		default:
			return nil, false
		}
	}
	return nil, false
}

// rootParam follows field selections, loads, slices and indexes back to the parameter a value is read from.
func rootParam(v ssa.Value) *ssa.Parameter {
	for i := 0; i < 12; i++ {
		switch x := v.(type) {
		case *ssa.Parameter:
			return x
		case *ssa.FieldAddr:
			v = x.X
		case *ssa.Field:
			v = x.X
		case *ssa.UnOp:
			v = x.X
		case *ssa.Slice:
			v = x.X
		case *ssa.IndexAddr:
			v = x.X
		case *ssa.Call:
			// getters: x.GetHeights()
			if sc := x.Common().StaticCallee(); sc != nil && strings.HasPrefix(sc.Name(), "Get") && len(x.Common().Args) == 1 {
				v = x.Common().Args[0]
				continue
			}
			return nil
		default:
			return nil
		}
	}
	return nil
}

func rootIsFreeVar(v ssa.Value) bool {
	for i := 0; i < 12; i++ {
		switch x := v.(type) {
		case *ssa.FreeVar:
			return true
		case *ssa.FieldAddr:
			v = x.X
		case *ssa.Field:
			v = x.X
		case *ssa.UnOp:
			v = x.X
		case *ssa.Slice:
			v = x.X
		case *ssa.IndexAddr:
			v = x.X
		default:
			return false
		}
	}
	return false
}
