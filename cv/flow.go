package main

import (
	"fmt"
	"go/token"
	"go/types"
	"sort"
	"strings"

	"golang.org/x/tools/go/ssa"
)

// FLOW engine: value provenance as a normalised access path. No heap model: a path is a purely
// syntactic description of how an SSA value is computed from parameters ($0 = receiver/first
// parameter, $1 ...), fields, calls and constants. Two values with the same path and no
// intervening store to that path are the same value; the rules only compare paths.

type flow struct {
	p            *Prog
	depth        int
	steps        int // nodes rendered so far in this top-level call: rendering is cut off ("…") beyond a budget
	visiting     map[*ssa.Phi]bool
	cyclic       map[*ssa.Phi]bool
	visitingCell map[*ssa.Alloc]bool
}

func (p *Prog) path(v ssa.Value) string {
	return (&flow{p: p, visiting: map[*ssa.Phi]bool{}, cyclic: map[*ssa.Phi]bool{}}).path(v, 0)
}

func paramIndex(pa *ssa.Parameter) int {
	f := pa.Parent()
	for i, q := range f.Params {
		if q == pa {
			return i
		}
	}
	return -1
}

func (fl *flow) path(v ssa.Value, d int) string {
	if v == nil {
		return "?"
	}
	fl.steps++
	if d > 40 || fl.steps > 6000 {
		return "…"
	}
	switch x := v.(type) {
	case *ssa.Parameter:
		// inside a helper that the path engine is analysing in place, a parameter is that call's argument
		if a := fl.p.boundArg(x); a != nil && d < 30 {
			return fl.path(a, d+1)
		}
		// a parameter of a transparent helper (newfn.go) is the caller's argument
		if site := fl.p.transparentSite(x.Parent()); site != nil {
			if i, args := paramIndex(x), site.Common().Args; i >= 0 && i < len(args) {
				return fl.path(args[i], d+1)
			}
		}
		return fmt.Sprintf("$%d", paramIndex(x))
	case *ssa.FreeVar:
		// resolve through the closure creation in the parent
		f := x.Parent()
		idx := -1
		for i, fv := range f.FreeVars {
			if fv == x {
				idx = i
			}
		}
		if par := f.Parent(); par != nil && idx >= 0 {
			var found ssa.Value
			instrs(par, func(in ssa.Instruction) {
				if mc, ok := in.(*ssa.MakeClosure); ok && mc.Fn == f && idx < len(mc.Bindings) {
					found = mc.Bindings[idx]
				}
			})
			if found != nil {
				// captured by reference: the binding is the address of the variable
				if a, ok := found.(*ssa.Alloc); ok {
					return "&" + fl.cell(a, d+1)
				}
				return fl.path(found, d+1)
			}
		}
		return "fv:" + x.Name()
	case *ssa.Const:
		if x.Value == nil {
			return "nil"
		}
		return x.Value.ExactString()
	case *ssa.Global:
		return shortQual(x.Pkg.Pkg) + "." + x.Name()
	case *ssa.Function:
		return "func:" + fnName(x)
	case *ssa.UnOp:
		switch x.Op {
		case token.MUL:
			switch a := x.X.(type) {
			case *ssa.FieldAddr:
				return fl.sel(a.X, fieldOfAddr(a), d)
			case *ssa.Alloc:
				return fl.cell(a, d+1)
			case *ssa.IndexAddr:
				return fl.path(a.X, d+1) + "[" + fl.path(a.Index, d+1) + "]"
			case *ssa.Global:
				return shortQual(a.Pkg.Pkg) + "." + a.Name()
			}
			s := fl.path(x.X, d+1)
			if strings.HasPrefix(s, "&") {
				return s[1:]
			}
			return "*" + s
		case token.NOT:
			return "!" + fl.path(x.X, d+1)
		case token.ARROW:
			return "<-" + fl.path(x.X, d+1)
		}
		return x.Op.String() + fl.path(x.X, d+1)
	case *ssa.FieldAddr:
		return "&" + fl.sel(x.X, fieldOfAddr(x), d)
	case *ssa.Field:
		return fl.sel(x.X, fieldOfAddr(x), d)
	case *ssa.IndexAddr:
		return "&" + fl.path(x.X, d+1) + "[" + fl.path(x.Index, d+1) + "]"
	case *ssa.Index:
		return fl.path(x.X, d+1) + "[" + fl.path(x.Index, d+1) + "]"
	case *ssa.Lookup:
		return fl.path(x.X, d+1) + "[" + fl.path(x.Index, d+1) + "]"
	case *ssa.Slice:
		// a slice literal / variadic argument list: the array it is cut from, element by element
		if a, ok := x.X.(*ssa.Alloc); ok && x.Low == nil && x.High == nil {
			if _, isArr := a.Type().Underlying().(*types.Pointer).Elem().Underlying().(*types.Array); isArr {
				if elems := sliceLitElems(x); len(elems) > 0 {
					var ps []string
					for _, el := range elems {
						ps = append(ps, fl.path(el, d+1))
					}
					return "[" + strings.Join(ps, ",") + "]"
				}
			}
		}
		return fl.path(x.X, d+1) + "[:]"
	case *ssa.Extract:
		if call, ok := x.Tuple.(*ssa.Call); ok {
			if p, ok := fl.throughWrapper(call, x.Index, d); ok {
				return p
			}
		}
		return fmt.Sprintf("%s#%d", fl.path(x.Tuple, d+1), x.Index)
	case *ssa.Call:
		if _, isTuple := x.Type().(*types.Tuple); !isTuple {
			if p, ok := fl.throughWrapper(x, 0, d); ok {
				return p
			}
		}
		return fl.call(x.Common(), d)
	case *ssa.Phi:
		// a phi that (transitively) depends on itself is a loop variable: opaque, identified by name
		if fl.visiting[x] {
			fl.cyclic[x] = true
			return "loopvar:" + x.Name()
		}
		fl.visiting[x] = true
		set := map[string]bool{}
		for _, e := range x.Edges {
			if e == v {
				continue
			}
			set[fl.path(e, d+2)] = true
		}
		delete(fl.visiting, x)
		if fl.cyclic[x] {
			return "loopvar:" + x.Name()
		}
		var ks []string
		for k := range set {
			ks = append(ks, k)
		}
		sort.Strings(ks)
		if len(ks) == 1 {
			return ks[0]
		}
		return "phi(" + strings.Join(ks, "|") + ")"
	case *ssa.Convert:
		return fl.path(x.X, d+1)
	case *ssa.ChangeType:
		return fl.path(x.X, d+1)
	case *ssa.ChangeInterface:
		return fl.path(x.X, d+1)
	case *ssa.MakeInterface:
		return fl.path(x.X, d+1)
	case *ssa.SliceToArrayPointer:
		return fl.path(x.X, d+1)
	case *ssa.TypeAssert:
		return fl.path(x.X, d+1) + ".(" + types.TypeString(x.AssertedType, shortQual) + ")"
	case *ssa.BinOp:
		return "(" + fl.path(x.X, d+1) + " " + x.Op.String() + " " + fl.path(x.Y, d+1) + ")"
	case *ssa.Alloc:
		// address of a local: describe by what it holds when it is a literal under construction
		return "&" + fl.cell(x, d+1)
	case *ssa.MakeClosure:
		return "closure:" + fnName(x.Fn.(*ssa.Function))
	case *ssa.MakeSlice:
		return "make[]"
	case *ssa.MakeMap:
		return "makemap"
	case *ssa.Next:
		return "next(" + fl.path(x.Iter, d+1) + ")"
	case *ssa.Range:
		return fl.path(x.X, d+1)
	}
	return fmt.Sprintf("%T:%s", v, v.Name())
}

// throughWrapper: result #idx of a call of a function literal called in place, or of a transparent helper (newfn.go), is
// the value that wrapper returns — when every return gives the same value (nil alternatives, the error exits, ignored).
func (fl *flow) throughWrapper(call *ssa.Call, idx int, d int) (string, bool) {
	var callee *ssa.Function
	switch v := call.Common().Value.(type) {
	case *ssa.MakeClosure:
		callee, _ = v.Fn.(*ssa.Function)
	case *ssa.Function:
		if !call.Common().IsInvoke() && fl.p.transparentSite(v) != nil {
			callee = v
		} else if !call.Common().IsInvoke() && fl.p.isNewNamed(v) && len(v.Blocks) <= 3 {
			// a small wrapper shared by several callers: rendered with its parameters bound to this call's arguments
			callee = v
			fl.p.pushBindings(v, call.Common().Args)
			defer fl.p.popBindings(v, call.Common().Args)
		}
	}
	if callee == nil || len(callee.Blocks) == 0 || d > 30 {
		return "", false
	}
	set := map[string]bool{}
	for _, b := range callee.Blocks {
		if ret, ok := b.Instrs[len(b.Instrs)-1].(*ssa.Return); ok && idx < len(ret.Results) {
			if p := fl.path(ret.Results[idx], d+2); p != "nil" {
				set[p] = true
			}
		}
	}
	if len(set) == 0 {
		return "", false
	}
	var alts []string
	for p := range set {
		alts = append(alts, p)
	}
	sort.Strings(alts)
	if len(alts) == 1 {
		return alts[0], true
	}
	return "phi(" + strings.Join(alts, "|") + ")", true
}

// sel renders base.field; the address-of marker of the base is dropped and embedded (promoted)
// fields are elided so that c.Config.NetworkID reads the same however Config embeds it.
func (fl *flow) sel(base ssa.Value, fv *types.Var, d int) string {
	b := strings.TrimPrefix(fl.path(base, d+1), "&")
	if fv == nil {
		return b + ".?"
	}
	if fv.Embedded() {
		// only value-embedded structs are elided; an embedded pointer (Store.*Indexer) keeps its name,
		// otherwise s.Indexer.db and s.db would read the same
		if _, isPtr := fv.Type().(*types.Pointer); !isPtr {
			return b
		}
	}
	return b + "." + fv.Name()
}

// cell describes the content of a local variable cell: the unique value stored into it, or a
// struct literal under construction, else an opaque name.
func (fl *flow) cell(a *ssa.Alloc, d int) string {
	// a variable whose stored values depend on its own content (x = f(x) in a loop) is a loop variable: opaque
	if fl.visitingCell == nil {
		fl.visitingCell = map[*ssa.Alloc]bool{}
	}
	if fl.visitingCell[a] {
		return "loopvar:" + a.Name()
	}
	fl.visitingCell[a] = true
	defer delete(fl.visitingCell, a)
	var stores []*ssa.Store
	fieldStores := 0
	for _, ref := range *a.Referrers() {
		switch r := ref.(type) {
		case *ssa.Store:
			if r.Addr == a {
				stores = append(stores, r)
			}
		case *ssa.FieldAddr:
			fieldStores++
		}
	}
	if len(stores) == 1 {
		return fl.path(stores[0].Val, d+1)
	}
	if len(stores) == 0 {
		if nt := namedOf(a.Type()); nt != nil {
			return "new(" + nt.Obj().Name() + ")@" + a.Name()
		}
		return "local:" + a.Name()
	}
	set := map[string]bool{}
	for _, s := range stores {
		set[fl.path(s.Val, d+2)] = true
	}
	var ks []string
	for k := range set {
		ks = append(ks, k)
	}
	sort.Strings(ks)
	if len(ks) == 1 {
		return ks[0]
	}
	return "var(" + strings.Join(ks, "|") + ")"
}

func (fl *flow) call(c *ssa.CallCommon, d int) string {
	var args []string
	for _, a := range c.Args {
		args = append(args, fl.path(a, d+1))
	}
	if c.IsInvoke() {
		return fl.path(c.Value, d+1) + "." + c.Method.Name() + "(" + strings.Join(args, ",") + ")"
	}
	if sc := c.StaticCallee(); sc != nil {
		name := fnName(origin(sc))
		// rendered after the shape of the REFERENCE name: a method turned into a function of its receiver (or the
		// reverse) keeps its rendering, like a renamed function keeps its name (newfn.go)
		if strings.HasPrefix(name, "(") && len(args) > 0 {
			// the method's reference name (a renamed method keeps it, newfn.go)
			mname := sc.Name()
			if i := strings.LastIndex(name, "."); i >= 0 && !strings.Contains(name[i+1:], "$") {
				mname = name[i+1:]
			}
			return args[0] + "." + mname + "(" + strings.Join(args[1:], ",") + ")"
		}
		if b, ok := c.Value.(*ssa.Builtin); ok {
			name = b.Name()
		}
		return name + "(" + strings.Join(args, ",") + ")"
	}
	if b, ok := c.Value.(*ssa.Builtin); ok {
		return b.Name() + "(" + strings.Join(args, ",") + ")"
	}
	return "dyn:" + fl.path(c.Value, d+1) + "(" + strings.Join(args, ",") + ")"
}

// litField returns the value stored into field fv of a struct under construction at base
// (an Alloc for &T{...}); nil if the literal does not set it.
func litField(base ssa.Value, fv *types.Var) ssa.Value {
	a, ok := base.(*ssa.Alloc)
	if !ok {
		return nil
	}
	var val ssa.Value
	for _, ref := range *a.Referrers() {
		fa, ok := ref.(*ssa.FieldAddr)
		if !ok || fieldOfAddr(fa) != fv {
			continue
		}
		for _, r2 := range *fa.Referrers() {
			if st, ok := r2.(*ssa.Store); ok && st.Addr == fa {
				val = st.Val
			}
		}
	}
	return val
}

// argOf returns the i-th source-level argument of a call (receiver excluded).
func argOf(cs ssa.CallInstruction, i int) ssa.Value {
	c := cs.Common()
	args := c.Args
	if !c.IsInvoke() && c.Signature().Recv() != nil {
		i++
	}
	if i < 0 || i >= len(args) {
		return nil
	}
	return args[i]
}

// recvOf returns the receiver value of a method call.
func recvOf(cs ssa.CallInstruction) ssa.Value {
	c := cs.Common()
	if c.IsInvoke() {
		return c.Value
	}
	if c.Signature().Recv() != nil && len(c.Args) > 0 {
		return c.Args[0]
	}
	return nil
}

// callsIn returns the call instructions in f (and optionally nested closures) that may invoke target.
func callsIn(f *ssa.Function, nested bool, targets ...*ssa.Function) []ssa.CallInstruction {
	var out []ssa.CallInstruction
	for _, g := range bodyFuncs(f, nested) {
		instrs(g, func(in ssa.Instruction) {
			if ci, ok := in.(ssa.CallInstruction); ok {
				if callIsAny(ci.Common(), targets...) != nil {
					out = append(out, ci)
				}
			}
		})
	}
	return out
}

// allCalls returns every call instruction of f.
func allCalls(f *ssa.Function) []ssa.CallInstruction {
	var out []ssa.CallInstruction
	instrs(f, func(in ssa.Instruction) {
		if ci, ok := in.(ssa.CallInstruction); ok {
			out = append(out, ci)
		}
	})
	return out
}

// expandPhi distributes the phi(a|b) alternatives of a rendered path: the result lists every
// single-valued path the value can take. A requirement "derives from X" must hold of each of
// them: a value that is X on one branch and something else on the other does not derive from X.
func expandPhi(p string) []string {
	out := []string{}
	var rec func(s string)
	rec = func(s string) {
		if len(out) >= 256 {
			return
		}
		i := lastPhi(s)
		if i < 0 {
			out = append(out, s)
			return
		}
		depth, j := 0, -1
		for k := i + 3; k < len(s); k++ {
			if s[k] == '(' || s[k] == '[' {
				depth++
			} else if s[k] == ')' || s[k] == ']' {
				depth--
				if depth == 0 {
					j = k
					break
				}
			}
		}
		if j < 0 {
			out = append(out, s)
			return
		}
		for _, alt := range splitPhi(s[i : j+1]) {
			rec(s[:i] + alt + s[j+1:])
		}
	}
	rec(p)
	return out
}

// lastPhi finds the last "phi(" of s that starts a token (it contains no further phi).
func lastPhi(s string) int {
	for end := len(s); ; {
		i := strings.LastIndex(s[:end], "phi(")
		if i < 0 {
			return -1
		}
		if i == 0 || !(s[i-1] == '_' || s[i-1] >= '0' && s[i-1] <= '9' || s[i-1] >= 'a' && s[i-1] <= 'z' || s[i-1] >= 'A' && s[i-1] <= 'Z') {
			return i
		}
		end = i
	}
}

// allAlts reports whether pred holds of every alternative of the path.
func allAlts(p string, pred func(string) bool) bool {
	for _, a := range expandPhi(p) {
		if !pred(a) {
			return false
		}
	}
	return true
}

// has reports whether every alternative of the path contains sub.
func has(p, sub string) bool {
	return allAlts(p, func(a string) bool { return strings.Contains(a, sub) })
}

// hasSuffix reports whether every alternative of the path ends in suf.
func hasSuffix(p, suf string) bool {
	return allAlts(p, func(a string) bool { return strings.HasSuffix(a, suf) })
}
